// rivia-facts: rustc_private driver that serialises the type-checked program (items + MIR with
// resolved callees) of selected crates to JSON.  Used as RUSTC_WORKSPACE_WRAPPER under
// `cargo +nightly check`.  Never executes analysed code.
//
// env: VERIF_OUT   = directory for <crate>.json (required to dump)
//      VERIF_CRATES= comma separated crate names to dump (default: rivia)
#![feature(rustc_private)]
#![feature(box_patterns)]

extern crate rustc_abi;
extern crate rustc_driver;
extern crate rustc_hir;
extern crate rustc_interface;
extern crate rustc_middle;
extern crate rustc_span;

use rustc_driver::{Callbacks, Compilation};
use rustc_hir::def::DefKind;
use rustc_hir::def_id::{DefId, LocalDefId, LOCAL_CRATE};
use rustc_interface::interface::Compiler;
use rustc_middle::mir::{self, *};
use rustc_middle::ty::print::with_no_trimmed_paths;
use rustc_middle::ty::{self, Ty, TyCtxt, TypingEnv};
use rustc_span::Span;
use std::fmt::Write as _;

fn esc(s: &str) -> String {
    let mut o = String::with_capacity(s.len() + 2);
    o.push('"');
    for c in s.chars() {
        match c {
            '"' => o.push_str("\\\""),
            '\\' => o.push_str("\\\\"),
            '\n' => o.push_str("\\n"),
            '\r' => o.push_str("\\r"),
            '\t' => o.push_str("\\t"),
            c if (c as u32) < 0x20 => {
                let _ = write!(o, "\\u{:04x}", c as u32);
            }
            c => o.push(c),
        }
    }
    o.push('"');
    o
}

fn arr(items: Vec<String>) -> String {
    format!("[{}]", items.join(","))
}

fn obj(items: Vec<(&str, String)>) -> String {
    let v: Vec<String> = items.into_iter().map(|(k, v)| format!("{}:{}", esc(k), v)).collect();
    format!("{{{}}}", v.join(","))
}

struct Cx<'tcx> {
    tcx: TyCtxt<'tcx>,
}

impl<'tcx> Cx<'tcx> {
    fn raw_path(&self, did: DefId) -> String {
        with_no_trimmed_paths!(self.tcx.def_path_str(did))
    }
    // canonical, module-independent key of a definition:
    //   <SelfTy as Trait>::name   for trait impl items
    //   <SelfTy>::name            for inherent impl items
    //   Trait::name               for trait items (declarations / default bodies)
    //   <parent>::{closure#n}     for closures
    //   def_path_str              otherwise
    fn path(&self, did: DefId) -> String {
        let tcx = self.tcx;
        match tcx.def_kind(did) {
            DefKind::AssocFn => {
                if let Some(imp) = tcx.impl_of_assoc(did) {
                    let st = tcx.type_of(imp).instantiate_identity().skip_norm_wip();
                    let name = tcx.item_name(did);
                    if tcx.impl_opt_trait_ref(imp).is_some() {
                        let tr = tcx.impl_trait_ref(imp).instantiate_identity().skip_norm_wip();
                        return format!("<{} as {}>::{}", self.ty(st), self.raw_path(tr.def_id), name);
                    }
                    return format!("<{}>::{}", self.ty(st), name);
                }
                self.raw_path(did)
            }
            DefKind::Closure => {
                let key = tcx.def_key(did);
                let n = key.disambiguated_data.disambiguator;
                match tcx.opt_parent(did) {
                    Some(p) => format!("{}::{{closure#{}}}", self.path(p), n),
                    None => self.raw_path(did),
                }
            }
            _ => self.raw_path(did),
        }
    }
    fn ty(&self, t: Ty<'tcx>) -> String {
        with_no_trimmed_paths!(t.to_string())
    }
    fn krate(&self, did: DefId) -> String {
        self.tcx.crate_name(did.krate).to_string()
    }
    fn loc(&self, sp: Span) -> (String, usize) {
        let sm = self.tcx.sess.source_map();
        let l = sm.lookup_char_pos(sp.lo());
        (format!("{}", l.file.name.prefer_local_unconditionally()), l.line)
    }
    fn span(&self, sp: Span) -> String {
        let (f, l) = self.loc(sp);
        let mut items = vec![("file", esc(&f)), ("line", l.to_string())];
        if sp.from_expansion() {
            let mut names = vec![];
            for e in sp.macro_backtrace() {
                if let rustc_span::ExpnKind::Macro(_, name) = e.kind {
                    names.push(esc(name.as_str()));
                } else {
                    names.push(esc(&format!("{:?}", e.kind)));
                }
            }
            items.push(("expn", arr(names)));
            let cs = sp.source_callsite();
            let (cf, cl) = self.loc(cs);
            items.push(("call_file", esc(&cf)));
            items.push(("call_line", cl.to_string()));
        }
        obj(items)
    }

    // ADT def paths / flags occurring anywhere inside a type
    fn ty_facts(&self, t: Ty<'tcx>) -> String {
        let mut adts = vec![];
        let mut has_ref = false;
        let mut has_rawptr = false;
        let mut has_dyn = false;
        let mut has_fnptr = false;
        let mut closures = vec![];
        let mut fndefs = vec![];
        let mut params: Vec<String> = vec![];
        for ga in t.walk() {
            if let Some(t) = ga.as_type() {
                match t.kind() {
                    ty::Adt(def, _) => {
                        let p = self.path(def.did());
                        if !adts.contains(&p) {
                            adts.push(p)
                        }
                    }
                    ty::Ref(..) => has_ref = true,
                    ty::RawPtr(..) => has_rawptr = true,
                    ty::Dynamic(..) => has_dyn = true,
                    ty::FnPtr(..) => has_fnptr = true,
                    ty::Closure(d, _) => closures.push(self.path(*d)),
                    ty::FnDef(d, _) => fndefs.push(self.path(*d)),
                    ty::Param(p) => {
                        let n = p.name.to_string();
                        if !params.contains(&n) {
                            params.push(n)
                        }
                    }
                    _ => {}
                }
            }
        }
        obj(vec![
            ("fndefs", arr(fndefs.iter().map(|s| esc(s)).collect())),
            ("params", arr(params.iter().map(|s| esc(s)).collect())),
            ("adts", arr(adts.iter().map(|s| esc(s)).collect())),
            ("ref", has_ref.to_string()),
            ("rawptr", has_rawptr.to_string()),
            ("dyn", has_dyn.to_string()),
            ("fnptr", has_fnptr.to_string()),
            ("closures", arr(closures.iter().map(|s| esc(s)).collect())),
        ])
    }

    fn vis(&self, did: DefId) -> String {
        match self.tcx.def_kind(did) {
            DefKind::Closure | DefKind::AnonConst | DefKind::InlineConst | DefKind::Impl { .. } => return esc("n/a"),
            _ => {}
        }
        match self.tcx.visibility(did) {
            ty::Visibility::Public => esc("pub"),
            ty::Visibility::Restricted(m) => esc(&format!("restricted:{}", self.path(m))),
        }
    }

    fn place(&self, body: &Body<'tcx>, p: &Place<'tcx>) -> String {
        let mut projs = vec![];
        for (base, elem) in p.iter_projections() {
            let bt = base.ty(&body.local_decls, self.tcx);
            let s = match elem {
                ProjectionElem::Deref => obj(vec![("k", esc("deref"))]),
                ProjectionElem::Field(f, fty) => {
                    let mut items = vec![("k", esc("field")), ("i", f.as_usize().to_string()), ("ty", esc(&self.ty(fty)))];
                    match bt.ty.kind() {
                        ty::Adt(def, _) => {
                            let vidx = bt.variant_index.unwrap_or(rustc_abi::FIRST_VARIANT);
                            if def.is_enum() || def.is_struct() || def.is_union() {
                                let v = def.variant(vidx);
                                if f.as_usize() < v.fields.len() {
                                    items.push(("name", esc(v.fields[f].name.as_str())));
                                }
                                items.push(("adt", esc(&self.path(def.did()))));
                                if def.is_enum() {
                                    items.push(("variant", esc(v.name.as_str())));
                                }
                            }
                        }
                        ty::Closure(d, _) => {
                            items.push(("closure", esc(&self.path(*d))));
                        }
                        ty::Tuple(_) => {
                            items.push(("tuple", "true".to_string()));
                        }
                        _ => {}
                    }
                    obj(items)
                }
                ProjectionElem::Downcast(name, vidx) => obj(vec![
                    ("k", esc("downcast")),
                    ("variant", esc(&name.map(|s| s.to_string()).unwrap_or_default())),
                    ("vi", vidx.as_usize().to_string()),
                ]),
                ProjectionElem::Index(l) => obj(vec![("k", esc("index")), ("local", l.as_usize().to_string())]),
                ProjectionElem::ConstantIndex { offset, from_end, .. } => obj(vec![
                    ("k", esc("constindex")),
                    ("offset", offset.to_string()),
                    ("from_end", from_end.to_string()),
                ]),
                ProjectionElem::Subslice { from, to, from_end } => obj(vec![
                    ("k", esc("subslice")),
                    ("from", from.to_string()),
                    ("to", to.to_string()),
                    ("from_end", from_end.to_string()),
                ]),
                ProjectionElem::OpaqueCast(_) => obj(vec![("k", esc("opaquecast"))]),
                ProjectionElem::UnwrapUnsafeBinder(_) => obj(vec![("k", esc("unwrapbinder"))]),
            };
            projs.push(s);
        }
        obj(vec![("l", p.local.as_usize().to_string()), ("p", arr(projs))])
    }

    fn fn_args_of(&self, args: ty::GenericArgsRef<'tcx>) -> (Vec<String>, Vec<String>) {
        // returns (all generic args as strings, def paths of closures / fn items among them (deep))
        let mut all = vec![];
        let mut fns = vec![];
        for a in args.iter() {
            if let Some(t) = a.as_type() {
                all.push(esc(&self.ty(t)));
                for ga in t.walk() {
                    if let Some(t2) = ga.as_type() {
                        match t2.kind() {
                            ty::Closure(d, _) => fns.push(esc(&self.path(*d))),
                            ty::FnDef(d, _) => fns.push(esc(&self.path(*d))),
                            _ => {}
                        }
                    }
                }
            } else if let Some(c) = a.as_const() {
                all.push(esc(&format!("{:?}", c)));
            }
        }
        (all, fns)
    }

    fn constant(&self, body_did: DefId, c: &ConstOperand<'tcx>) -> String {
        let tcx = self.tcx;
        let cty = c.const_.ty();
        let mut items = vec![("k", esc("const")), ("ty", esc(&self.ty(cty)))];
        if let ty::FnDef(did, args) = cty.kind() {
            items.push(("fn", esc(&self.path(*did))));
            items.push(("fn_crate", esc(&self.krate(*did))));
            let (all, fns) = self.fn_args_of(args);
            items.push(("gargs", arr(all)));
            items.push(("fn_args", arr(fns)));
        } else if let ty::Closure(did, _) = cty.kind() {
            items.push(("closure", esc(&self.path(*did))));
        }
        match c.const_ {
            mir::Const::Val(val, t) => match val {
                mir::ConstValue::Scalar(rustc_middle::mir::interpret::Scalar::Int(si)) => {
                    let bits = si.to_bits(si.size());
                    items.push(("int", esc(&bits.to_string())));
                    if t.is_bool() {
                        items.push(("bool", (bits != 0).to_string()));
                    }
                    if t.is_char() {
                        if let Some(ch) = char::from_u32(bits as u32) {
                            items.push(("char", esc(&ch.to_string())));
                        }
                    }
                    if t.is_signed() {
                        let sz = si.size();
                        let v = sz.sign_extend(bits) as i128;
                        items.push(("sint", esc(&v.to_string())));
                    }
                }
                mir::ConstValue::Slice { .. } => {
                    if let Some(bytes) = val.try_get_slice_bytes_for_diagnostics(tcx) {
                        if let Ok(s) = std::str::from_utf8(bytes) {
                            items.push(("str", esc(s)));
                        }
                    }
                }
                mir::ConstValue::ZeroSized => {
                    items.push(("zst", "true".to_string()));
                }
                mir::ConstValue::Scalar(rustc_middle::mir::interpret::Scalar::Ptr(ptr, _)) => {
                    // reference to a byte array (e.g. the template of format_args!): expose readable bytes
                    let (prov, offset) = ptr.prov_and_relative_offset();
                    if let Some(rustc_middle::mir::interpret::GlobalAlloc::Memory(alloc)) = tcx.try_get_global_alloc(prov.alloc_id()) {
                        let a = alloc.inner();
                        let start = offset.bytes_usize();
                        if start <= a.len() && a.len() - start <= 4096 {
                            let bytes = a.inspect_with_uninit_and_ptr_outside_interpreter(start..a.len());
                            let text: String = bytes.iter().map(|b| if *b >= 0x20 && *b < 0x7f { *b as char } else { '\u{1}' }).collect();
                            items.push(("bytes", esc(&text)));
                        }
                    }
                }
                _ => {
                    items.push(("other", esc(&format!("{:?}", val))));
                }
            },
            mir::Const::Unevaluated(u, _t) => {
                items.push(("uneval", esc(&self.path(u.def))));
                if let Some(p) = u.promoted {
                    items.push(("promoted", p.as_usize().to_string()));
                } else {
                    // try to evaluate closed constants such as usize::MAX
                    use rustc_middle::ty::TypeVisitableExt;
                    if !c.const_.has_non_region_param() {
                        let tenv = TypingEnv::post_analysis(tcx, body_did);
                        if let Some(si) = c.const_.try_eval_scalar_int(tcx, tenv) {
                            let bits = si.to_bits(si.size());
                            items.push(("int", esc(&bits.to_string())));
                        }
                    }
                }
            }
            mir::Const::Ty(_, ct) => {
                items.push(("tyconst", esc(&format!("{:?}", ct))));
            }
        }
        obj(items)
    }

    fn operand(&self, body_did: DefId, body: &Body<'tcx>, o: &Operand<'tcx>) -> String {
        match o {
            Operand::Copy(p) => obj(vec![("k", esc("copy")), ("place", self.place(body, p))]),
            Operand::Move(p) => obj(vec![("k", esc("move")), ("place", self.place(body, p))]),
            Operand::Constant(c) => self.constant(body_did, c),
            Operand::RuntimeChecks(rc) => obj(vec![("k", esc("runtime_checks")), ("which", esc(&format!("{:?}", rc)))]),
        }
    }

    fn rvalue(&self, body_did: DefId, body: &Body<'tcx>, rv: &Rvalue<'tcx>) -> String {
        let op = |o: &Operand<'tcx>| self.operand(body_did, body, o);
        match rv {
            Rvalue::Use(o, _) => obj(vec![("k", esc("use")), ("op", op(o))]),
            Rvalue::Repeat(o, _) => obj(vec![("k", esc("repeat")), ("op", op(o))]),
            Rvalue::Ref(_, bk, p) => obj(vec![
                ("k", esc("ref")),
                ("mut", matches!(bk, BorrowKind::Mut { .. }).to_string()),
                ("place", self.place(body, p)),
            ]),
            Rvalue::ThreadLocalRef(d) => obj(vec![("k", esc("tls")), ("def", esc(&self.path(*d)))]),
            Rvalue::RawPtr(_, p) => obj(vec![("k", esc("rawptr")), ("place", self.place(body, p))]),
            Rvalue::Cast(ck, o, t) => obj(vec![
                ("k", esc("cast")),
                ("cast", esc(&format!("{:?}", ck))),
                ("op", op(o)),
                ("from", esc(&self.ty(o.ty(&body.local_decls, self.tcx)))),
                ("to", esc(&self.ty(*t))),
                ("to_facts", self.ty_facts(*t)),
                ("from_facts", self.ty_facts(o.ty(&body.local_decls, self.tcx))),
            ]),
            Rvalue::BinaryOp(b, box (l, r)) => obj(vec![
                ("k", esc("binop")),
                ("op", esc(&format!("{:?}", b))),
                ("l", op(l)),
                ("r", op(r)),
                ("lty", esc(&self.ty(l.ty(&body.local_decls, self.tcx)))),
            ]),
            Rvalue::UnaryOp(u, o) => obj(vec![("k", esc("unop")), ("op", esc(&format!("{:?}", u))), ("a", op(o))]),
            Rvalue::Discriminant(p) => obj(vec![("k", esc("discr")), ("place", self.place(body, p))]),
            Rvalue::Aggregate(box ak, ops) => {
                let mut items = vec![("k", esc("aggregate"))];
                match ak {
                    AggregateKind::Array(_) => items.push(("agg", esc("array"))),
                    AggregateKind::Tuple => items.push(("agg", esc("tuple"))),
                    AggregateKind::Adt(did, vidx, _, _, _) => {
                        items.push(("agg", esc("adt")));
                        items.push(("adt", esc(&self.path(*did))));
                        let def = self.tcx.adt_def(*did);
                        let v = def.variant(*vidx);
                        items.push(("variant", esc(v.name.as_str())));
                        items.push(("vi", vidx.as_usize().to_string()));
                        let names: Vec<String> = v.fields.iter().map(|f| esc(f.name.as_str())).collect();
                        items.push(("fields", arr(names)));
                    }
                    AggregateKind::Closure(did, _) => {
                        items.push(("agg", esc("closure")));
                        items.push(("closure", esc(&self.path(*did))));
                    }
                    AggregateKind::Coroutine(did, _) | AggregateKind::CoroutineClosure(did, _) => {
                        items.push(("agg", esc("coroutine")));
                        items.push(("closure", esc(&self.path(*did))));
                    }
                    AggregateKind::RawPtr(..) => items.push(("agg", esc("rawptr"))),
                }
                items.push(("ops", arr(ops.iter().map(|o| op(o)).collect())));
                obj(items)
            }
            Rvalue::CopyForDeref(p) => obj(vec![("k", esc("copyforderef")), ("place", self.place(body, p))]),
            Rvalue::WrapUnsafeBinder(o, _) => obj(vec![("k", esc("wrapbinder")), ("op", op(o))]),
        }
    }

    fn unwind(&self, u: &UnwindAction) -> String {
        match u {
            UnwindAction::Cleanup(bb) => bb.as_usize().to_string(),
            _ => "null".to_string(),
        }
    }

    fn body(&self, did: DefId, body: &Body<'tcx>, name: &str, extra: Vec<(&str, String)>) -> String {
        let tcx = self.tcx;
        let tenv = TypingEnv::post_analysis(tcx, did);
        let mut items: Vec<(&str, String)> = vec![("name", esc(name))];
        items.extend(extra);
        items.push(("span", self.span(body.span)));
        items.push(("arg_count", body.arg_count.to_string()));
        // locals
        let mut names: std::collections::HashMap<usize, String> = Default::default();
        for vdi in &body.var_debug_info {
            if let VarDebugInfoContents::Place(p) = &vdi.value {
                if p.projection.is_empty() {
                    names.entry(p.local.as_usize()).or_insert(vdi.name.to_string());
                } else {
                    // closure upvar debug info: _1.0 etc
                    names.entry(1_000_000 + names.len()).or_insert(format!("{}={:?}", vdi.name, p));
                }
            }
        }
        let mut locals = vec![];
        for (l, d) in body.local_decls.iter_enumerated() {
            let mut li = vec![("ty", esc(&self.ty(d.ty)))];
            if let Some(n) = names.get(&l.as_usize()) {
                li.push(("name", esc(n)));
            }
            li.push(("facts", self.ty_facts(d.ty)));
            locals.push(obj(li));
        }
        items.push(("locals", arr(locals)));
        let upv: Vec<String> =
            names.iter().filter(|(k, _)| **k >= 1_000_000).map(|(_, v)| esc(v)).collect();
        items.push(("upvar_debug", arr(upv)));

        let mut blocks = vec![];
        for (_bb, data) in body.basic_blocks.iter_enumerated() {
            let mut stmts = vec![];
            for st in &data.statements {
                match &st.kind {
                    StatementKind::Assign(box (p, rv)) => stmts.push(obj(vec![
                        ("k", esc("assign")),
                        ("place", self.place(body, p)),
                        ("rv", self.rvalue(did, body, rv)),
                        ("span", self.span(st.source_info.span)),
                    ])),
                    StatementKind::SetDiscriminant { place, variant_index } => stmts.push(obj(vec![
                        ("k", esc("setdiscr")),
                        ("place", self.place(body, place)),
                        ("vi", variant_index.as_usize().to_string()),
                    ])),
                    StatementKind::StorageDead(l) => {
                        stmts.push(obj(vec![("k", esc("dead")), ("l", l.as_usize().to_string())]))
                    }
                    StatementKind::StorageLive(l) => {
                        stmts.push(obj(vec![("k", esc("live")), ("l", l.as_usize().to_string())]))
                    }
                    _ => {}
                }
            }
            let term = data.terminator();
            let tspan = self.span(term.source_info.span);
            let t = match &term.kind {
                TerminatorKind::Goto { target } => {
                    obj(vec![("k", esc("goto")), ("target", target.as_usize().to_string())])
                }
                TerminatorKind::SwitchInt { discr, targets } => {
                    let mut ts = vec![];
                    for (v, bb) in targets.iter() {
                        ts.push(format!("[{},{}]", esc(&v.to_string()), bb.as_usize()));
                    }
                    // when the operand is the discriminant of an enum (read in this block), name the variants
                    let mut vnames = vec![];
                    if let Some(dp) = discr.place() {
                        for st in &data.statements {
                            if let StatementKind::Assign(box (p, Rvalue::Discriminant(src))) = &st.kind {
                                if *p == dp {
                                    let sty = src.ty(&body.local_decls, tcx).ty;
                                    if let ty::Adt(def, _) = sty.kind() {
                                        if def.is_enum() {
                                            for (vi, v) in def.variants().iter_enumerated() {
                                                let dv = def.discriminant_for_variant(tcx, vi).val;
                                                vnames.push(format!("{}:{}", esc(&dv.to_string()), esc(v.name.as_str())));
                                            }
                                            vnames.push(format!("{}:{}", esc("__enum"), esc(&self.path(def.did()))));
                                        }
                                    }
                                }
                            }
                        }
                    }
                    obj(vec![
                        ("k", esc("switch")),
                        ("discr", self.operand(did, body, discr)),
                        ("discr_ty", esc(&self.ty(discr.ty(&body.local_decls, tcx)))),
                        ("targets", arr(ts)),
                        ("otherwise", targets.otherwise().as_usize().to_string()),
                        ("variants", format!("{{{}}}", vnames.join(","))),
                    ])
                }
                TerminatorKind::UnwindResume => obj(vec![("k", esc("resume"))]),
                TerminatorKind::UnwindTerminate(_) => obj(vec![("k", esc("terminate"))]),
                TerminatorKind::Return => obj(vec![("k", esc("return"))]),
                TerminatorKind::Unreachable => obj(vec![("k", esc("unreachable"))]),
                TerminatorKind::Drop { place, target, unwind, .. } => {
                    let pty = place.ty(&body.local_decls, tcx).ty;
                    obj(vec![
                        ("k", esc("drop")),
                        ("place", self.place(body, place)),
                        ("ty", esc(&self.ty(pty))),
                        ("ty_facts", self.ty_facts(pty)),
                        ("target", target.as_usize().to_string()),
                        ("unwind", self.unwind(unwind)),
                    ])
                }
                TerminatorKind::Call { func, args, destination, target, unwind, fn_span, .. } => {
                    let mut ci = vec![("k", esc("call"))];
                    ci.push(("func", self.operand(did, body, func)));
                    let fty = func.ty(&body.local_decls, tcx);
                    if let ty::FnDef(cdid, cargs) = fty.kind() {
                        ci.push(("callee", esc(&self.path(*cdid))));
                        ci.push(("callee_crate", esc(&self.krate(*cdid))));
                        // trait of the declared callee, if an associated item of a trait
                        if let Some(tr) = tcx.trait_of_assoc(*cdid) {
                            ci.push(("callee_trait", esc(&self.path(tr))));
                        }
                        ci.push(("callee_name", esc(tcx.item_name(*cdid).as_str())));
                        let is_unsafe = tcx.fn_sig(*cdid).skip_binder().safety().is_unsafe();
                        ci.push(("callee_unsafe", is_unsafe.to_string()));
                        // closure / fn-item type arguments the callee is allowed to *call* (bounded by an Fn* trait)
                        let mut callable = vec![];
                        let preds = tcx.predicates_of(*cdid).instantiate(tcx, cargs);
                        for cl in preds.predicates.iter() {
                            let cl = cl.skip_norm_wip();
                            if let Some(tp) = cl.as_trait_clause() {
                                let tp = tp.skip_binder();
                                if tcx.fn_trait_kind_from_def_id(tp.def_id()).is_some() {
                                    match tp.self_ty().kind() {
                                        ty::Closure(d, _) | ty::FnDef(d, _) => callable.push(esc(&self.path(*d))),
                                        _ => {}
                                    }
                                }
                            }
                        }
                        ci.push(("callable_args", arr(callable)));
                        let mut resolved = "null".to_string();
                        let mut rkind = "null".to_string();
                        let mut rcrate = "null".to_string();
                        let mut rself = "null".to_string();
                        use rustc_middle::ty::TypeVisitableExt;
                        let _ = cargs.has_non_region_param();
                        if let Ok(Some(inst)) = ty::Instance::try_resolve(tcx, tenv, *cdid, cargs) {
                            let rd = inst.def_id();
                            resolved = esc(&self.path(rd));
                            rcrate = esc(&self.krate(rd));
                            rkind = esc(match inst.def {
                                ty::InstanceKind::Item(_) => "item",
                                ty::InstanceKind::Virtual(..) => "virtual",
                                ty::InstanceKind::Intrinsic(_) => "intrinsic",
                                ty::InstanceKind::FnPtrShim(..) => "fnptrshim",
                                ty::InstanceKind::ClosureOnceShim { .. } => "closureonceshim",
                                ty::InstanceKind::DropGlue(..) => "dropglue",
                                ty::InstanceKind::CloneShim(..) => "cloneshim",
                                ty::InstanceKind::ReifyShim(..) => "reifyshim",
                                ty::InstanceKind::VTableShim(..) => "vtableshim",
                                _ => "other",
                            });
                            // self type of the impl the resolved item lives in
                            if let Some(imp) = tcx.impl_of_assoc(rd) {
                                let st = tcx.type_of(imp).instantiate_identity().skip_norm_wip();
                                rself = esc(&self.ty(st));
                            }
                        }
                        ci.push(("resolved", resolved));
                        ci.push(("resolved_kind", rkind));
                        ci.push(("resolved_crate", rcrate));
                        ci.push(("resolved_self", rself));
                        // self type for trait calls = first generic arg
                        if tcx.trait_of_assoc(*cdid).is_some() && cargs.len() > 0 {
                            if let Some(t0) = cargs[0].as_type() {
                                ci.push(("self_ty", esc(&self.ty(t0))));
                                ci.push(("self_facts", self.ty_facts(t0)));
                            }
                        }
                    }
                    ci.push(("args", arr(args.iter().map(|a| self.operand(did, body, &a.node)).collect())));
                    ci.push((
                        "arg_tys",
                        arr(args.iter().map(|a| esc(&self.ty(a.node.ty(&body.local_decls, tcx)))).collect()),
                    ));
                    ci.push(("dest", self.place(body, destination)));
                    ci.push(("target", target.map(|t| t.as_usize().to_string()).unwrap_or("null".into())));
                    ci.push(("unwind", self.unwind(unwind)));
                    ci.push(("fn_span", self.span(*fn_span)));
                    obj(ci)
                }
                TerminatorKind::TailCall { .. } => obj(vec![("k", esc("tailcall"))]),
                TerminatorKind::Assert { cond, expected, msg, target, unwind } => {
                    let kind = match &**msg {
                        AssertKind::BoundsCheck { .. } => "bounds".to_string(),
                        AssertKind::Overflow(op, ..) => format!("overflow:{:?}", op),
                        AssertKind::OverflowNeg(_) => "overflow_neg".to_string(),
                        AssertKind::DivisionByZero(_) => "div_zero".to_string(),
                        AssertKind::RemainderByZero(_) => "rem_zero".to_string(),
                        AssertKind::MisalignedPointerDereference { .. } => "ptrcheck".to_string(),
                        AssertKind::NullPointerDereference => "ptrcheck".to_string(),
                        AssertKind::InvalidEnumConstruction(_) => "ptrcheck".to_string(),
                        _ => "other".to_string(),
                    };
                    let mut ai = vec![
                        ("k", esc("assert")),
                        ("cond", self.operand(did, body, cond)),
                        ("expected", expected.to_string()),
                        ("msg", esc(&kind)),
                        ("target", target.as_usize().to_string()),
                        ("unwind", self.unwind(unwind)),
                    ];
                    if let AssertKind::Overflow(_, l, r) = &**msg {
                        ai.push(("l", self.operand(did, body, l)));
                        ai.push(("r", self.operand(did, body, r)));
                        ai.push(("lty", esc(&self.ty(l.ty(&body.local_decls, tcx)))));
                    }
                    if let AssertKind::BoundsCheck { len, index } = &**msg {
                        ai.push(("l", self.operand(did, body, len)));
                        ai.push(("r", self.operand(did, body, index)));
                    }
                    obj(ai)
                }
                TerminatorKind::Yield { .. } => obj(vec![("k", esc("yield"))]),
                TerminatorKind::CoroutineDrop => obj(vec![("k", esc("coroutinedrop"))]),
                TerminatorKind::FalseEdge { real_target, .. } => {
                    obj(vec![("k", esc("goto")), ("target", real_target.as_usize().to_string())])
                }
                TerminatorKind::FalseUnwind { real_target, .. } => {
                    obj(vec![("k", esc("goto")), ("target", real_target.as_usize().to_string())])
                }
                TerminatorKind::InlineAsm { .. } => obj(vec![("k", esc("asm"))]),
            };
            blocks.push(obj(vec![
                ("cleanup", data.is_cleanup.to_string()),
                ("stmts", arr(stmts)),
                ("term", t),
                ("span", tspan),
            ]));
        }
        items.push(("blocks", arr(blocks)));
        obj(items)
    }

    fn dump(&self) -> String {
        let tcx = self.tcx;
        let mut out: Vec<(&str, String)> = vec![("crate", esc(tcx.crate_name(LOCAL_CRATE).as_str()))];

        // ---- items
        let mut adts = vec![];
        let mut traits = vec![];
        let mut impls = vec![];
        let mut fns_without_body = vec![];
        let ev = tcx.effective_visibilities(());
        for ldid in tcx.hir_crate_items(()).definitions() {
            let did = ldid.to_def_id();
            match tcx.def_kind(did) {
                DefKind::Struct | DefKind::Enum | DefKind::Union => {
                    let def = tcx.adt_def(did);
                    let mut variants = vec![];
                    for v in def.variants() {
                        let mut fields = vec![];
                        for f in &v.fields {
                            let fty = tcx.type_of(f.did).instantiate_identity().skip_norm_wip();
                            fields.push(obj(vec![
                                ("name", esc(f.name.as_str())),
                                ("ty", esc(&self.ty(fty))),
                                ("vis", self.vis(f.did)),
                                ("facts", self.ty_facts(fty)),
                            ]));
                        }
                        variants.push(obj(vec![("name", esc(v.name.as_str())), ("fields", arr(fields))]));
                    }
                    let (f, l) = self.loc(tcx.def_span(did));
                    adts.push(obj(vec![
                        ("path", esc(&self.path(did))),
                        ("kind", esc(&format!("{:?}", tcx.def_kind(did)))),
                        ("vis", self.vis(did)),
                        ("exported", ev.is_exported(ldid).to_string()),
                        ("reachable", ev.is_reachable(ldid).to_string()),
                        ("variants", arr(variants)),
                        ("file", esc(&f)),
                        ("line", l.to_string()),
                    ]));
                }
                DefKind::Trait => {
                    let mut ms = vec![];
                    for it in tcx.associated_items(did).in_definition_order() {
                        if it.is_fn() {
                            ms.push(obj(vec![
                                ("name", esc(it.name().as_str())),
                                ("path", esc(&self.path(it.def_id))),
                                ("has_default", it.defaultness(tcx).has_value().to_string()),
                            ]));
                        }
                    }
                    traits.push(obj(vec![("path", esc(&self.path(did))), ("methods", arr(ms))]));
                }
                DefKind::Impl { of_trait } => {
                    let st = tcx.type_of(did).instantiate_identity().skip_norm_wip();
                    let mut ii = vec![("self_ty", esc(&self.ty(st))), ("self_facts", self.ty_facts(st))];
                    if of_trait {
                        let tr = tcx.impl_trait_ref(did).instantiate_identity().skip_norm_wip();
                        ii.push(("trait", esc(&self.path(tr.def_id))));
                        ii.push(("trait_ref", esc(&with_no_trimmed_paths!(tr.to_string()))));
                    } else {
                        ii.push(("trait", "null".to_string()));
                    }
                    let mut ms = vec![];
                    for it in tcx.associated_items(did).in_definition_order() {
                        if it.is_fn() {
                            let mut mi = vec![("name", esc(it.name().as_str())), ("path", esc(&self.path(it.def_id)))];
                            if let Some(t) = it.trait_item_def_id() {
                                mi.push(("trait_item", esc(&self.path(t))));
                            }
                            ms.push(obj(mi));
                        }
                    }
                    ii.push(("methods", arr(ms)));
                    let (f, l) = self.loc(tcx.def_span(did));
                    ii.push(("file", esc(&f)));
                    ii.push(("line", l.to_string()));
                    impls.push(obj(ii));
                }
                DefKind::Fn | DefKind::AssocFn => {
                    if !tcx.is_mir_available(did) {
                        fns_without_body.push(esc(&self.path(did)));
                    }
                }
                _ => {}
            }
        }
        out.push(("adts", arr(adts)));
        out.push(("traits", arr(traits)));
        out.push(("impls", arr(impls)));
        out.push(("fns_without_body", arr(fns_without_body)));

        // ---- bodies
        let mut bodies = vec![];
        for ldid in tcx.hir_body_owners() {
            let did = ldid.to_def_id();
            let kind = tcx.def_kind(did);
            if !matches!(kind, DefKind::Fn | DefKind::AssocFn | DefKind::Closure) {
                continue;
            }
            let body = tcx.optimized_mir(did);
            let name = self.path(did);
            let mut extra: Vec<(&str, String)> = vec![
                ("kind", esc(&format!("{:?}", kind))),
                ("vis", self.vis(did)),
                ("exported", ev.is_exported(ldid).to_string()),
            ];
            let root = tcx.typeck_root_def_id(did);
            if root != did {
                extra.push(("root", esc(&self.path(root))));
            }
            if let Some(p) = tcx.opt_parent(did) {
                extra.push(("parent", esc(&self.path(p))));
            }
            if matches!(kind, DefKind::AssocFn) {
                if let Some(imp) = tcx.impl_of_assoc(did) {
                    let st = tcx.type_of(imp).instantiate_identity().skip_norm_wip();
                    extra.push(("impl_self", esc(&self.ty(st))));
                    if tcx.impl_opt_trait_ref(imp).is_some() {
                        let tr = tcx.impl_trait_ref(imp).instantiate_identity().skip_norm_wip();
                        extra.push(("impl_trait", esc(&self.path(tr.def_id))));
                    }
                    if let Some(t) = tcx.associated_item(did).trait_item_def_id() {
                        extra.push(("trait_item", esc(&self.path(t))));
                    }
                } else if let Some(tr) = tcx.trait_of_assoc(did) {
                    extra.push(("default_of_trait", esc(&self.path(tr))));
                }
            }
            if matches!(kind, DefKind::Fn | DefKind::AssocFn) {
                extra.push(("item_name", esc(tcx.item_name(did).as_str())));
                let sig = tcx.fn_sig(did).instantiate_identity().skip_norm_wip().skip_binder();
                extra.push(("inputs", arr(sig.inputs().iter().map(|t| esc(&self.ty(*t))).collect())));
                extra.push(("output", esc(&self.ty(sig.output()))));
                let gens = tcx.generics_of(did);
                let mut gp = vec![];
                for p in &gens.own_params {
                    gp.push(esc(p.name.as_str()));
                }
                extra.push(("generics", arr(gp)));
                // predicates (trait bounds) as strings
                let preds = tcx.predicates_of(did);
                let mut ps = vec![];
                for (c, _) in preds.predicates {
                    ps.push(esc(&with_no_trimmed_paths!(c.to_string())));
                }
                extra.push(("preds", arr(ps)));
            }
            if matches!(kind, DefKind::Closure) {
                let cty = tcx.type_of(did).instantiate_identity().skip_norm_wip();
                if let ty::Closure(_, cargs) = cty.kind() {
                    let up: Vec<String> = cargs
                        .as_closure()
                        .upvar_tys()
                        .iter()
                        .map(|t| obj(vec![("ty", esc(&self.ty(t))), ("facts", self.ty_facts(t))]))
                        .collect();
                    extra.push(("upvars", arr(up)));
                }
            }
            bodies.push(self.body(did, body, &name, extra));
            // promoted
            let prom = tcx.promoted_mir(did);
            for (i, pb) in prom.iter_enumerated() {
                let pname = format!("{}::promoted[{}]", name, i.as_usize());
                bodies.push(self.body(
                    did,
                    pb,
                    &pname,
                    vec![("kind", esc("Promoted")), ("root", esc(&name))],
                ));
            }
        }
        out.push(("bodies", arr(bodies)));
        obj(out)
    }
}

struct Cb;

impl Callbacks for Cb {
    fn after_analysis<'tcx>(&mut self, _c: &Compiler, tcx: TyCtxt<'tcx>) -> Compilation {
        let crates = std::env::var("VERIF_CRATES").unwrap_or_else(|_| "rivia".to_string());
        let name = tcx.crate_name(LOCAL_CRATE).to_string();
        if !crates.split(',').any(|c| c == name) {
            return Compilation::Continue;
        }
        if let Ok(dir) = std::env::var("VERIF_OUT") {
            let cx = Cx { tcx };
            let s = cx.dump();
            let p = std::path::Path::new(&dir).join(format!("{}.json", name));
            std::fs::write(&p, s).expect("write facts");
        }
        Compilation::Continue
    }
}

#[allow(dead_code)]
fn _unused(_: LocalDefId) {}

fn main() {
    let mut args: Vec<String> = std::env::args().collect();
    // invoked as: wrapper rustc <args...>
    if args.len() > 1 && (args[1].ends_with("rustc") || args[1].contains("/rustc")) {
        args.remove(1);
    }
    let mut cb = Cb;
    rustc_driver::run_compiler(&args, &mut cb);
}
