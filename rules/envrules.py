"""ERR-PROP (C17) and ENV-TABLE (C18)."""
import re
from mir import Body, callee_of, op_local, op_place
from panics import sdesc_operand, describe_operand, known_facts

TRY_BRANCH = '<std::result::Result<T, E> as std::ops::Try>::branch'


def uses_of(B, l):
    """(bb, kind, detail) for every read of local l (whole or projected) in normal blocks"""
    out = []

    def op_uses(o):
        p = op_place(o)
        return p is not None and p['l'] == l
    for i in sorted(B.normal):
        blk = B.blocks[i]
        for j, s in enumerate(blk['stmts']):
            if s['k'] != 'assign':
                continue
            rv = s['rv']
            k = rv['k']
            hit = False
            if k in ('use', 'cast', 'repeat'):
                hit = op_uses(rv['op'])
            elif k in ('ref', 'copyforderef', 'discr', 'rawptr'):
                hit = rv['place']['l'] == l
            elif k == 'aggregate':
                hit = any(op_uses(o) for o in rv['ops'])
            elif k == 'binop':
                hit = op_uses(rv['l']) or op_uses(rv['r'])
            elif k == 'unop':
                hit = op_uses(rv['a'])
            if hit:
                out.append((i, 'stmt:' + k, s))
        t = blk['term']
        if t['k'] == 'call':
            if any(op_uses(a) for a in t['args']):
                out.append((i, 'call', t))
        elif t['k'] == 'switch':
            if op_uses(t['discr']):
                out.append((i, 'switch', t))
        elif t['k'] == 'drop':
            pass
    return out


def propagated_by_question_mark(B, call_bb):
    """the Result produced by the call at call_bb is consumed only by `?`: its sole use is Try::branch and the Break arm returns
    from_residual.  Returns (ok, why)"""
    t = B.term(call_bb)
    l = t['dest']['l']
    if t['dest']['p']:
        return False, 'result stored into a projection'
    us = uses_of(B, l)
    if len(us) != 1 or us[0][1] != 'call' or callee_of(us[0][2]) != TRY_BRANCH:
        kinds = ['%s %s' % (u[1], (callee_of(u[2]) or '') if u[1] == 'call' else '') for u in us]
        return False, 'the result is consumed by %s instead of `?`' % (kinds or 'nothing (dropped)')
    bb = us[0][0]
    bl = us[0][2]['dest']['l']
    sw = us[0][2].get('target')
    if sw is None or B.term(sw)['k'] != 'switch':
        return False, 'no branch on the Try result'
    brk = [tb for v, tb in B.term(sw)['targets'] if v == '1']
    if not brk:
        return False, 'no Break arm'
    # Break arm: _0 = from_residual(..) then return
    cur = brk[0]
    for _ in range(6):
        tt = B.term(cur)
        if tt['k'] == 'call' and (callee_of(tt) or '').endswith('FromResidual>::from_residual') and tt['dest']['l'] == 0:
            return True, ''
        if tt['k'] in ('goto',):
            cur = tt['target']
            continue
        break
    return False, 'the Break arm does not return the error'


def err_prop(rep, F, cg, sites, rule='ERR-PROP'):
    """sites: list of (function, callee to look for, what)"""
    rep.rule(rule, 'the Result of env::var inside expand / home_dir, and of home_dir() inside expand, flows only into `?` (Try::branch whose Break arm '
             'returns from_residual): it is not consumed by ok / unwrap_or* / unwrap_or_default / a match that substitutes a value / let _')
    n = 0
    for fn, callee, what in sites:
        if fn not in F.bodies:
            rep.add(rule, 'errprop:%s:%s' % (fn, callee), '%s exists' % fn, False, detail='anchor %s missing' % fn)
            continue
        B = cg.body(fn)
        cs = [(i, t) for i, t in B.calls() if (callee_of(t) or '') == callee or (t.get('callee') or '') == callee]
        if not cs:
            rep.add(rule, 'errprop:%s:%s' % (fn.split('::')[-1], callee.split('::')[-1]), '%s calls %s' % (fn, callee), False, '%s:%d' % (B.file, B.line),
                    '%s no longer calls %s (anchor of the rule gone: %s)' % (fn, callee, what))
            continue
        for k, (i, t) in enumerate(cs):
            n += 1
            ok, why = propagated_by_question_mark(B, i)
            rep.add(rule, 'errprop:%s:%s#%d' % (fn.split('::')[-1], callee.split('::')[-1], k), 'the error of %s in %s is propagated with `?` (%s)' % (callee, fn, what),
                    ok, B.loc(i), '' if ok else '%s: %s — an unset variable would be expanded silently instead of failing' % (fn, why))
    rep.floor(rule, 'env lookups checked', n, 3)


def string_consts(F, B):
    """all string literals used as operands in the body (including through promoted constants)"""
    out = []
    for i in sorted(B.normal):
        blk = B.blocks[i]
        ops = []
        for s in blk['stmts']:
            if s['k'] != 'assign':
                continue
            rv = s['rv']
            if rv['k'] in ('use', 'cast'):
                ops.append(rv['op'])
            elif rv['k'] == 'aggregate':
                ops.extend(rv['ops'])
        t = blk['term']
        if t['k'] == 'call':
            ops.extend(t['args'])
        for o in ops:
            if o['k'] == 'const' and 'str' in o:
                out.append((i, o['str']))
    return out
