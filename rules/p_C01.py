"""C01 — Memfs behaves as a tree filesystem for every history.
Decided clause: a single-target call that reports failure leaves the tree exactly as it was (FAIL-ATOMIC).
Not decided: equality of every result and tree with a reference model over all histories."""
import engine, atomic, errguard
from callgraph import CallGraph

EXPLANATION = (
    "Decided (the statement's last sentence): for mkfile, mkdir_p/mkdir_m, write_all, append_all, remove, move_p, symlink and set_cwd, in every body "
    "that owns or receives the write guard no control-flow path runs a mutator (insert/remove of an entry or data record, set_cwd, a write through "
    "get_entry_mut/get_file_mut, or the Ok-continuation of a callee that mutates only on Ok) and afterwards reaches an Err return; the rule is "
    "compositional through the MutatesOnOkOnly summary. Paths that are infeasible under the tree invariant are excused by one table line each, whose "
    "structural side conditions (the validations it relies on dominate every mutation) are re-checked on every run. Also decided: 'failure with the documented "
    "error kind' structurally — every error exit of the Memfs methods is taken exactly under its frozen validation facts (ERR-GUARD) — and the query / read / "
    "listing methods never take the write guard or mutate (READ-ONLY). NOT decided: that every result "
    "and the resulting tree equal those of a reference tree filesystem for all histories (a value-level equivalence over runtime states).")


def run(rep, F, ctx):
    cg = CallGraph(F)
    cg.prune_never_err()
    M, ok_only = atomic.fail_atomic(rep, F, cg)
    errguard.err_guard(rep, F, cg, engine.load_table('err_guards.json'), lambda fn: 'memfs' in fn)
    errguard.read_only(rep, F, cg, M)
    import siteguard as _sg
    _t = engine.load_table('site_guards.json')
    _sg.site_guard(rep, F, cg, _t, _t['_groups']['C01'])
    return engine.finish(
        rep, 'other', EXPLANATION,
        assumptions=['the excuse lines in tables/failatomic_excuses.json state true infeasibility arguments (most rely on the tree invariant of C03)',
                     'an error return reached without a preceding mutation leaves the tree unchanged (only the listed mutators change shared state; WHO-WRITES under C03 checks that)'],
        trusted_base=['rustc nightly MIR', 'extractor/', 'rules/atomic.py'],
        checker_cmd='./check C01', seed=ctx['seed'])
