"""Rename normalisation: a function that kept its place (same impl / module), kind and signature but changed its *name* is the same function.

tables/defs.json freezes (name -> signature) of every fn / method of the confirmed tree.  When a frozen name is missing from the analysed tree and exactly
one function that is *not* frozen has the same parent, kind, generics, inputs and output, the fact file is rewritten to the frozen name before any rule runs,
so name-keyed tables (excuses, frozen guards, anchors) keep applying to the renamed function and every rule still inspects its body."""
import json, os, re

VERIF = os.path.dirname(os.path.dirname(os.path.abspath(__file__)))
TABLE = os.path.join(VERIF, 'tables', 'defs.json')


def signature(b):
    return [b['kind'], b.get('parent', ''), b.get('impl_trait') or '', b.get('inputs', []), b.get('output', ''), b.get('generics', [])]


def freeze(d):
    return {b['name']: signature(b) for b in d['bodies'] if b['kind'] in ('Fn', 'AssocFn')}


def detect(d, frozen):
    cur = {b['name']: signature(b) for b in d['bodies'] if b['kind'] in ('Fn', 'AssocFn')}
    missing = [n for n in frozen if n not in cur]
    new = [n for n in cur if n not in frozen]
    out = {}
    for m in missing:
        c = [n for n in new if cur[n] == frozen[m]]
        # unique in both directions
        if len(c) == 1 and sum(1 for mm in missing if frozen[mm] == frozen[m]) == 1:
            out[c[0]] = m
    return out


def normalise(text, crate):
    """text of a fact file -> (text with renamed functions mapped back to their frozen names, {new: frozen})"""
    if crate != 'rivia' or not os.path.exists(TABLE):
        return text, {}
    with open(TABLE) as f:
        frozen = json.load(f)
    d = json.loads(text)
    ren = detect(d, frozen)
    for new, old in ren.items():
        # names are JSON string content: escape for the JSON encoding, then replace where the name is not a prefix of a longer identifier
        n = json.dumps(new)[1:-1]
        o = json.dumps(old)[1:-1]
        text = re.sub(re.escape(n) + r'(?![A-Za-z0-9_])', lambda _m: o, text)
    return text, ren
