"""C03 — Memfs namespace stays a well-formed tree.
Decided: WHO-WRITES (the redundant indexes are written only through the accessor layer / the entry's own methods), PAIR (every index update in
the bookkeeping functions is paired with its sibling updates), FAIL-ATOMIC for the bookkeeping functions.  Not decided: the global invariant
over all reachable states."""
import engine, atomic
from callgraph import CallGraph
from mir import callee_of
from panics import known_facts

M_ = '<sys::fs::memfs::vfs::Memfs>::'
MV = '<sys::fs::memfs::vfs::Memfs as sys::fs::vfs::VirtualFileSystem>::'
ENTRY = 'sys::fs::memfs::entry::MemfsEntry'

EXPLANATION = (
    "Decided (the anchors' pairing mechanisms): the three redundant indexes (path->entry map, path->data map, each directory's child-name set) and "
    "cwd/root are written only by the functions frozen in tables/who_writes.json (WHO-WRITES; root is never written after construction, cwd only by "
    "set_cwd with an abs() result); in _add, remove, remove_all, move_p and _copy every index update is paired on all paths with its sibling updates or "
    "leaves through the documented None arm of the lookup (PAIR); and a failed single-target call mutates nothing (FAIL-ATOMIC, shared with C01). These "
    "are necessary conditions of the tree invariant. NOT decided: the global invariant itself over all reachable states.")


def suffix(sfx):
    return lambda B, i, t: (callee_of(t) or '').endswith(sfx)


def replace_guard(rep, F, cg, M):
    """`nothing is ever orphaned`: an entry that is overwritten by a move must not be a directory that still lists children"""
    from panics import sdesc_operand
    R = 'REPLACE-GUARD'
    rep.rule(R, 'Memfs::move_p looks up the entry stored under its effective destination (the path whose parent it validates) before the first mutation, on every '
             'path: a non-empty directory found there is refused instead of being overwritten (its children would stay in the entry map with no parent listing them)')
    fn = MV + 'move_p'
    if fn not in F.bodies:
        rep.add(R, 'replaceguard:move_p:anchor', '%s exists' % fn, False, detail='anchor missing')
        return
    B = cg.body(fn)
    import panics as _pn
    _pn.PHI = True          # a variable assigned on two paths (dst itself, or dst/<name>) is described by both definitions
    try:
        return _replace_guard(rep, F, cg, B, R)
    finally:
        _pn.PHI = False


def _replace_guard(rep, F, cg, B, R):
    from panics import sdesc_operand
    fn = MV + 'move_p'
    lookups = [(i, t, sdesc_operand(B, t['args'][1])) for i, t in B.calls()
               if ((callee_of(t) or '').endswith('>::get_entry') or (callee_of(t) or '').endswith('>::contains_entry')) and len(t['args']) > 1]
    muts = [i for i, t in B.calls() if (callee_of(t) or '').endswith(('>::remove_entry', '>::insert_entry', '>::remove_file', '>::insert_file'))]
    first = [m for m in muts if not any(B.dominates(o, m) and o != m for o in muts)]
    # a lookup of the destination itself: its key is computed from the dst parameter (arg3) and is not the parent (`dir(..)`) of something
    guards = [(i, d) for i, t, d in lookups if 'arg3' in d and not d.startswith('dir(')]
    ok = bool(first) and bool(guards) and all(any(B.dominates(g, m) for g, d in guards) for m in first)
    rep.add(R, 'replaceguard:move_p', 'move_p inspects the entry it is about to overwrite', ok, '%s:%d' % (B.file, B.line),
            '' if ok else 'move_p: no lookup of the effective destination dominates the first mutation (lookups before it: %s) — moving a directory into a directory that '
            'already holds a non-empty directory of the same name overwrites that entry and orphans its children' % sorted({d[:60] for i, t, d in lookups}))


def link_kind(rep, F, cg):
    """`exactly the regular non-link files have byte content`: an existing symlink must not be taken for the regular file a caller wants to create / fill"""
    import errguard, re
    R = 'LINK-KIND'
    rep.rule(R, 'Memfs::_add rejects a request to create a NON-link entry where a symlink already exists (an error exit guarded by is_symlink(existing) == true), as '
             'it rejects a link where a non-link exists: otherwise write_all / copy store a data record under the link\'s key')
    fn = M_ + '_add'
    if fn not in F.bodies:
        rep.add(R, 'linkkind:_add:anchor', '%s exists' % fn, False, detail='anchor missing')
        return
    eg = errguard.collect_err_guards(F, cg)
    exits = {k: v for k, v in eg.items() if k.startswith(fn + '|')}
    pat = re.compile(r'^is_symlink\(get_entry\(arg2,path_buf\(arg3\)\) as Some\.0\)=True$')
    ok = any(any(pat.match(f) for f in inst) for insts in exits.values() for inst in insts)
    B = cg.body(fn)
    rep.add(R, 'linkkind:_add', '_add refuses a non-link entry over an existing symlink', ok, '%s:%d' % (B.file, B.line),
            '' if ok else '_add has no error exit for `existing entry is a symlink, requested entry is not` (exits: %s): write_all("/link", ..) or copy(file, "/link") '
            'on an existing link to a file succeed and attach byte content to the link' % sorted(k.split('|')[1] for k in exits))


def parent_real_dir(rep, F, cg):
    """`every existing path other than the root has an existing parent that is a REAL directory and lists it`"""
    from errguard import structural_facts
    import re
    R = 'PARENT-REAL-DIR'
    rep.rule(R, 'Memfs::_add stores a new entry (insert_entry) only on paths where the lookup of the parent succeeded, the parent is_dir() AND the parent is not a '
             'symlink: a link to a directory is not a directory of the tree — children stored under the link\'s own path are listed by no real directory')
    fn = M_ + '_add'
    if fn not in F.bodies:
        rep.add(R, 'parentreal:_add:anchor', '%s exists' % fn, False, detail='anchor missing')
        return
    B = cg.body(fn)
    sites = [i for i, t in B.calls() if (callee_of(t) or '').endswith('>::insert_entry')]
    for i in sites:
        fs = structural_facts(B, i)
        parent = [d for d, v in fs if v == 'Some' and re.match(r'^get_entry\(arg2,dir\(', d)]
        isdir = any(re.match(r'^is_dir\(get_entry\(arg2,dir\(', d) and v is True for d, v in fs)
        notlink = any(re.match(r'^is_symlink\(get_entry\(arg2,dir\(', d) and v is False for d, v in fs)
        ok = bool(parent) and isdir and notlink
        rep.add(R, 'parentreal:_add', '_add creates entries only under a real (non-link) directory', ok, B.loc(i),
                '' if ok else '_add reaches insert_entry with parent found=%s, is_dir(parent)=%s, !is_symlink(parent)=%s: a symlink to a directory is accepted as parent, so '
                'mkfile("/link/child") stores an entry under the link that no recursive listing from the root reaches' % (bool(parent), isdir, notlink))
    rep.floor(R, 'insert_entry sites in _add', len(sites), 1)


def pair_rules(rep, F, cg, M):
    rep.rule('PAIR', 'in each bookkeeping function, every path from index update A to a normal completion (or, for removals, every path to A) passes the '
             'paired update B, or leaves through the None arm of the lookup that fetches B\'s receiver / the arm that says B does not apply: '
             '_add: insert_entry <-> parent.add and insert_file iff non-link file; remove / remove_all: parent.remove <-> remove_file <-> remove_entry; '
             'move_p: remove_entry <-> insert_entry, remove_file <-> insert_file, old-parent remove <-> new-parent add; _copy: _add <-> insert_file for non-links')
    P = atomic.PairCheck(F, cg, M)

    def state(sfx):
        return lambda B, i, t: (callee_of(t) or '') == '<%s>::%s' % (ENTRY, sfx) and M.state_derived(B, t['args'][0])
    fn = M_ + '_add'
    P.after(rep, 'PAIR', 'pair:_add:insert_entry->parent.add', fn, suffix('>::insert_entry'), state('add'), [('none', '>::get_entry_mut')],
            '_add: a new entry is also added to its parent\'s child set')
    P.before(rep, 'PAIR', 'pair:_add:insert_file-before-insert_entry', fn, suffix('>::insert_entry'), suffix('>::insert_file'),
             [('true', r'^is_symlink\('), ('false', r'^is_file\(')], '_add: a new non-link file entry gets a data record')
    if fn in F.bodies:
        B = cg.body(fn)
        for i, t in B.calls():
            if (callee_of(t) or '').endswith('>::insert_file'):
                facts = known_facts(B, i)
                ok = any(d.startswith('is_symlink(') and not tr for d, tr in facts) and any(d.startswith('is_file(') and tr for d, tr in facts)
                rep.add('PAIR', 'pair:_add:insert_file-only-nonlink-file', '_add: a data record is created only for a non-link file entry', ok, B.loc(i),
                        '' if ok else '_add inserts a data record without the dominating tests !is_symlink && is_file: links/directories would get byte content')
    for fn, unless_file in ((MV + 'remove', [('false', r'^is_file\('), ('none', '>::get_entry')]), (MV + 'remove_all', [('false', r'^contains_file\(')])):
        short = fn.split('::')[-1]
        P.before(rep, 'PAIR', 'pair:%s:parent.remove-before-remove_entry' % short, fn, suffix('>::remove_entry'), state('remove'), [('none', '>::get_entry_mut')],
                 '%s: the name is removed from the parent\'s child set before the entry is dropped' % short)
        P.before(rep, 'PAIR', 'pair:%s:remove_file-before-remove_entry' % short, fn, suffix('>::remove_entry'), suffix('>::remove_file'), unless_file,
                 '%s: the data record is removed together with its entry' % short)
    fn = MV + 'move_p'
    P.after(rep, 'PAIR', 'pair:move_p:remove_entry->insert_entry', fn, suffix('>::remove_entry'), suffix('>::insert_entry'), [],
            'move_p: an entry removed from the old key is inserted under the new key')
    P.after(rep, 'PAIR', 'pair:move_p:remove_file->insert_file', fn, suffix('>::remove_file'), suffix('>::insert_file'), [('none', '>::remove_file')],
            'move_p: a data record removed from the old key is inserted under the new key')
    P.after(rep, 'PAIR', 'pair:move_p:old-parent.remove->new-parent.add', fn, state('remove'), state('add'), [],
            'move_p: the name removed from the old parent is added to the new parent')
    # an entry stored under a key brings the data index under that key in line: its own data is inserted, or whatever data the replaced destination had is dropped
    from panics import sdesc_operand as _sd

    def same_key_data_update(B, i, t):
        c = callee_of(t) or ''
        if not (c.endswith('>::insert_file') or c.endswith('>::remove_file')) or len(t['args']) < 2:
            return False
        keys = {_sd(B, tt['args'][1]) for ii, tt in B.calls() if (callee_of(tt) or '').endswith('>::insert_entry') and len(tt['args']) > 1}
        return _sd(B, t['args'][1]) in keys
    P.after(rep, 'PAIR', 'pair:move_p:insert_entry->data-index', fn, suffix('>::insert_entry'), same_key_data_update, [],
            'move_p: after an entry is stored under the destination key the data index under that key is updated (own data inserted, or stale data of a replaced file removed)')
    fn = M_ + '_copy'
    P.after(rep, 'PAIR', 'pair:_copy:_add->insert_file', fn, suffix('>::_add'), suffix('>::insert_file'), [('true', r'^is_symlink\(')],
            '_copy: a copied non-link file gets its data stored under the new key')
    rep.floor('PAIR', 'pairing obligations', sum(1 for o in rep.obls if o.rule == 'PAIR'), 11)


def run(rep, F, ctx):
    cg = CallGraph(F)
    cg.prune_never_err()
    M, ok_only = atomic.fail_atomic(rep, F, cg)
    atomic.who_writes(rep, F, cg, engine.load_table('who_writes.json'))
    atomic.who_calls(rep, F, cg, engine.load_table('who_calls.json'))
    # cwd stays absolute: the only caller of set_cwd passes an abs() result
    rep.rule('CWD-ABS', 'every argument of MemfsGuard::set_cwd originates from Memfs::_abs (so cwd stays a clean absolute path)')
    n_cwd = 0
    for n in cg.names():
        B = cg.body(n)
        for i, t in B.calls():
            if (callee_of(t) or '').endswith('>::set_cwd') and F.bodies.get(callee_of(t), {}).get('impl_self', '').startswith('sys::fs::memfs::vfs::MemfsGuard'):
                n_cwd += 1

                def transparent(tt):
                    c = callee_of(tt) or ''
                    if c.endswith('Try>::branch') or c.endswith('Clone>::clone') or c.endswith('::to_path_buf') or c.endswith('::to_owned'):
                        return [0]
                    return None
                roots = B.op_origins(t['args'][1], transparent)
                calls = [callee_of(B.term(r[1])) for r in roots if r[0] == 'call']
                import roles
                absfn = roles.discover(F).get('memfs_abs', '')
                bad = [r for r in roots if r[0] == 'arg'] + [c for c in calls if c != absfn]
                ok = bool(calls) and not bad
                rep.add('CWD-ABS', 'cwdabs:%s' % n, 'the path stored as cwd in %s comes from _abs' % n, ok, B.loc(i),
                        '' if ok else 'set_cwd receives a path that is not an _abs result (%s): cwd may become relative or unclean' % bad)
    rep.floor('CWD-ABS', 'set_cwd call sites', n_cwd, 1)

    pair_rules(rep, F, cg, M)
    parent_real_dir(rep, F, cg)
    replace_guard(rep, F, cg, M)
    link_kind(rep, F, cg)
    import siteguard as _sg
    _t = engine.load_table('site_guards.json')
    _sg.site_guard(rep, F, cg, _t, _t['_groups']['C03'])
    return engine.finish(
        rep, 'other', EXPLANATION,
        assumptions=['HashMap / HashSet behave as maps / sets', 'the frozen writer table lists the intended owners of each field (confirmed by reading, one reason each)'],
        trusted_base=['rustc nightly MIR', 'extractor/', 'rules/atomic.py'],
        checker_cmd='./check C03', seed=ctx['seed'])
