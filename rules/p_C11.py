"""C11 — chmod/chown change exactly the selected entries.
Decided: WHO-WRITES (mode / type bits), GUARDED-BY (never alter a symlink itself), META-CONSIST (is_exec / is_readonly / mode read the same
metadata), ENTRY-DEFAULTS, SETTER (Chmod, Chown builders), traversal set-up of _chmod / _chown + SIBLING, CLAUSE-COMPLETE (no success exit inside the
symbolic clause loop except for a link).
Not decided: the symbolic-mode grammar's semantics, which entries a traversal selects."""
import engine, linkrules, setters, atomic
from callgraph import CallGraph
from atomic import PairCheck, Mutation
from mir import callee_of, op_local
from panics import sdesc_operand, describe_operand, known_facts

TR = 'sys::fs::vfs::VirtualFileSystem'
MEMFS = 'sys::fs::memfs::vfs::Memfs'
STDFS = 'sys::fs::stdfs::Stdfs'
ENTRY_TR = 'sys::fs::entry::Entry'
EXPLANATION = (
    "Decided structural clauses: 'keeps every entry's file-type bits' — MemfsEntry.mode is written only by set_mode/build/clone and set_mode routes "
    "through MemfsEntryOpts::mode, the only place that ORs the type bits (WHO-WRITES + TYPEBITS); 'never alters a symlink itself' — every set_mode / "
    "fs::set_permissions in the two _chmod functions and their pre_op closures is reached only through !is_symlink() or follow (GUARDED-BY); 'is_exec and "
    "is_readonly always agree with mode()' — the Entry defaults compute from self.mode() with 0o111 / 0o222 only and each backend's three queries read the "
    "same metadata flavour (META-CONSIST, ENTRY-DEFAULTS); the Chmod / Chown builders assign exactly their documented fields (SETTER); _chmod / _chown "
    "configure the traversal identically on both backends with max_depth 0 / usize::MAX chosen by `recursive` and follow passed through (TRAVERSAL-SETUP, "
    "SIBLING); sys::mode leaves its clause loop with success only for a link, so no later clause of a comma-repeated expression is dropped "
    "(CLAUSE-COMPLETE). NOT decided: the symbolic-mode grammar's semantics for all expressions beyond that, and which entries a traversal selects.")


MODE_FN = 'sys::fs::chmod::mode'


def clause_complete(rep, F, cg):
    """CLAUSE-COMPLETE — the symbolic expression is a comma-repeatable list of clauses and the resulting mode is defined by ALL of them. Structural necessary
    condition: inside the loop that consumes the expression (an exit reached under an iteration fact `pop(..)=Some` / `next(..)=Some`) sys::mode may return
    success only for a symlink (no clause can apply to it); every other success exit lies behind the loop's exhaustion edge (`..=None`). A success return on
    the target-mismatch edge drops every later clause: `f:a+r,d:a+x` applied to a directory leaves it unchanged."""
    import re
    import siteguard as _sg
    rep.rule('CLAUSE-COMPLETE', 'sys::mode returns Ok from inside the clause loop (under an iteration fact pop(..)=Some / next(..)=Some) only under the definite fact '
             'is_symlink(entry)=True; every other Ok exit is reached after the expression is exhausted (iteration fact ..=None or is_empty(remaining)=True) or before parsing starts')
    if MODE_FN not in F.bodies:
        rep.add('CLAUSE-COMPLETE', 'clausecomplete:anchor', '%s exists' % MODE_FN, False, detail='anchor missing')
        return
    B = cg.body(MODE_FN)
    inst = _sg.collect(F, cg, [MODE_FN]).get(MODE_FN + '|return Ok', [])
    it = re.compile(r'^(pop|next|next_back|_pop)\(.*\)=(Some|None)$')
    inside = exhausted = 0
    for facts in inst:
        its = {m.group(2) for f in facts if '|' not in f for m in [it.match(f)] if m}
        if 'None' in its or any(re.match(r'^is_empty\(.*\)=True$', f) for f in facts if '|' not in f and 'arg3' not in f):
            exhausted += 1              # behind an exhaustion edge (the outer or an inner read of the expression returned nothing)
            continue
        if 'Some' not in its:
            continue
        inside += 1
        ok = 'is_symlink(arg1)=True' in facts
        about = sorted(f for f in facts if 'arg1' in f and 'phi(' not in f)
        key = 'clausecomplete:mode:%s' % (','.join(about) or 'unconditional')
        rep.add('CLAUSE-COMPLETE', key, 'a success return of sys::mode inside the clause loop is taken only for a symlink', ok, '%s:%d' % (B.file, B.line),
                '' if ok else 'sys::mode returns Ok from inside the clause loop under %s: the clauses after a non-matching one are never applied '
                '(e.g. "f:a+r,d:a+x" leaves a directory unchanged although its second clause targets it)' % (about or 'no entry condition'))
    rep.floor('CLAUSE-COMPLETE', 'Ok exits of sys::mode behind the exhaustion edge of the clause loop', exhausted, 1)


def run(rep, F, ctx):
    cg = CallGraph(F)
    M = Mutation(F, cg)
    P = PairCheck(F, cg, M)
    t = engine.load_table('who_writes.json')
    atomic.who_writes(rep, F, cg, {k: v for k, v in t.items() if k in ('MemfsEntry.mode', 'MemfsEntryOpts.mode', 'MemfsEntry.dir', 'MemfsEntry.file', 'MemfsEntry.link',
                                                                     'MemfsEntry.uid', 'MemfsEntry.gid')})
    rep.rule('TYPEBITS', 'MemfsEntry::set_mode obtains the new mode from MemfsEntryOpts::mode (which ORs 0o120000 / 0o100000 / 0o40000 by kind) on an '
             'options value carrying the entry\'s own kind flags')
    fn = '<sys::fs::memfs::entry::MemfsEntry>::set_mode'
    if fn in F.bodies:
        B = cg.body(fn)
        ok = any((callee_of(tt) or '') == '<sys::fs::memfs::entry::MemfsEntryOpts>::mode' for i, tt in B.calls())
        src = None
        for i, j, s in B.assigns():
            if s['place']['p'] and s['place']['p'][-1].get('name') == 'mode' and s['place']['p'][-1].get('adt', '').endswith('MemfsEntry'):
                src = sdesc_operand(B, s['rv']['op']) if s['rv']['k'] == 'use' else s['rv']['k']
        ok = ok and src is not None and src.startswith('mode(') and src.endswith('.mode')
        agg_ok = False
        for i, j, s in B.assigns():
            rv = s['rv']
            if rv['k'] == 'aggregate' and rv.get('adt', '').endswith('MemfsEntryOpts'):
                vals = dict(zip(rv['fields'], [sdesc_operand(B, o) for o in rv['ops']]))
                agg_ok = vals.get('dir') == 'arg1.dir' and vals.get('file') == 'arg1.file' and vals.get('link') == 'arg1.link'
        rep.add('TYPEBITS', 'typebits:set_mode', 'set_mode stores MemfsEntryOpts{dir,file,link of self}.mode(m).mode', ok and agg_ok, '%s:%d' % (B.file, B.line),
                '' if (ok and agg_ok) else 'set_mode stores %s (kind flags copied: %s): the file-type bits may be lost' % (src, agg_ok))
    else:
        rep.add('TYPEBITS', 'typebits:set_mode', 'MemfsEntry::set_mode exists', False, detail='anchor missing')
    fn = '<sys::fs::memfs::entry::MemfsEntryOpts>::mode'
    if fn in F.bodies:
        B = cg.body(fn)
        consts = set()
        for i, j, s in B.assigns():
            rv = s['rv']
            if rv['k'] == 'binop' and rv['op'] == 'BitOr':
                for o in (rv['l'], rv['r']):
                    if o['k'] == 'const' and 'int' in o:
                        consts.add(int(o['int']))
        want = {0o120000, 0o100000, 0o40000}
        ok = want <= consts
        rep.add('TYPEBITS', 'typebits:opts.mode', 'MemfsEntryOpts::mode ORs the type bits 0o120000 / 0o100000 / 0o40000', ok, '%s:%d' % (B.file, B.line),
                '' if ok else 'type-bit constants found: %s' % sorted(oct(c) for c in consts))
        # the value the type bits are OR-ed onto is masked to the permission bits first
        unmasked = []
        for i, j, s in B.assigns():
            rv = s['rv']
            if rv['k'] == 'binop' and rv['op'] == 'BitOr':
                for o, other in ((rv['l'], rv['r']), (rv['r'], rv['l'])):
                    if o['k'] == 'const' and 'int' in o and int(o['int']) in (0o120000, 0o100000, 0o40000):
                        d = sdesc_operand(B, other)
                        if not ('BitAnd(' in d and ',4095)' in d):
                            unmasked.append('%s | %s at %s' % (d, oct(int(o['int'])), B.loc(i)))
        rep.add('TYPEBITS', 'typebits:mask', 'the caller\'s mode is masked to its permission bits (& 0o7777) before the type bits are OR-ed on', not unmasked, '%s:%d' % (B.file, B.line),
                '' if not unmasked else 'type bits are OR-ed onto an unmasked value (%s): chmod(file, 0o40755) would store directory type bits on a file' % '; '.join(unmasked))

    rep.rule('GUARDED-BY', 'each permission write (MemfsEntry::set_mode on a stored entry / fs::set_permissions) in _chmod and its pre_op closure is reached only '
             'through the !is_symlink() edge or the follow edge of the option struct')
    perm = lambda B, i, tt: (callee_of(tt) or '') in ('<sys::fs::memfs::entry::MemfsEntry>::set_mode', 'std::fs::set_permissions')
    n = 0
    for fn in ('<%s>::_chmod' % MEMFS, '<%s>::_chmod::{closure#0}' % MEMFS, '<%s>::_chmod' % STDFS, '<%s>::_chmod::{closure#0}' % STDFS):
        n += linkrules.guarded_sites(rep, 'GUARDED-BY', 'guarded', F, cg, fn, perm, [[('false', r'is_symlink\('), ('true', r'\.follow$')]],
                                     '%(fn)s changes permissions only for a non-link entry (or when following)',
                                     '%(fn)s changes permissions at %(loc)s without the guard !is_symlink() || follow: chmod would alter a symlink itself', P)
    rep.floor('GUARDED-BY', 'permission write sites', n, 4)

    rep.rule('SYM-NONLINK', 'in sys::mode no permission arithmetic is reachable from the is_symlink() == true edge: for a link entry (followed or not) the symbolic '
             'expression is not evaluated and the original mode is returned')
    fn = 'sys::fs::chmod::mode'
    if fn in F.bodies:
        B = cg.body(fn)
        tedges = P.escape_edges(B, [('true', r'^is_symlink[(]')])
        arith = {i for i, j, s in B.assigns() if s['rv']['k'] == 'binop' and s['rv']['op'] in ('BitAnd', 'BitOr') and s['rv'].get('lty') == 'u32'}
        bad = []
        for (d, tb) in tedges:
            hit = sorted(arith & B.reachable_from(tb))
            if hit:
                bad.append(B.loc(hit[0]))
        ok = bool(tedges) and bool(arith) and not bad
        rep.add('SYM-NONLINK', 'symnonlink:mode', 'sys::mode returns the unchanged mode on the is_symlink() edge (no permission arithmetic is reachable from it)', ok, '%s:%d' % (B.file, B.line),
                '' if ok else 'from the is_symlink() == true edge sys::mode can still reach the permission arithmetic (%s): the link\'s own 0o120777 mode becomes the base of the expression and is written to the entry' % bad[:3])
    else:
        rep.add('SYM-NONLINK', 'symnonlink:mode', 'sys::mode exists', False, detail='anchor missing')

    rep.rule('META-CONSIST', 'within Stdfs, mode, is_exec and is_readonly read the same metadata flavour (all symlink_metadata or all metadata)')
    flav = {}
    for m in ('mode', 'is_exec', 'is_readonly'):
        fn = '<%s>::%s' % (STDFS, m)
        if fn not in F.bodies:
            rep.add('META-CONSIST', 'metaconsist:%s' % m, 'Stdfs::%s exists' % m, False, detail='anchor missing')
            continue
        cs = {(tt.get('callee') or '') for i, tt in cg.body(fn).calls()}
        flav[m] = sorted(c.split('::')[-1] for c in cs if c in ('std::fs::metadata', 'std::fs::symlink_metadata'))
    ok = len(flav) == 3 and len({tuple(v) for v in flav.values()}) == 1 and all(len(v) == 1 for v in flav.values())
    rep.add('META-CONSIST', 'metaconsist:Stdfs', 'Stdfs::mode / is_exec / is_readonly use one metadata flavour', ok, '',
            '' if ok else 'Stdfs reads different metadata in mode / is_exec / is_readonly: %s — for a link the three answers disagree' % flav)

    rep.rule('ENTRY-DEFAULTS', 'Entry::is_exec = mode() & 0o111 != 0 and Entry::is_readonly = mode() & 0o222 == 0 (callee set and constants of the default bodies); no backend entry overrides them')
    for meth, const, cmp_ in (('is_exec', 0o111, 'Ne'), ('is_readonly', 0o222, 'Eq')):
        fn = '%s::%s' % (ENTRY_TR, meth)
        if fn not in F.bodies:
            rep.add('ENTRY-DEFAULTS', 'entrydefault:%s' % meth, '%s has a default body' % fn, False, detail='missing')
            continue
        B = cg.body(fn)
        # the value the default body returns, described structurally (temporaries and helpers that did not exist in the confirmed tree are seen through)
        import siteguard as _sgd
        res = _sgd.collect(F, cg, [fn]).get(fn + '|return true', [])          # truth conditions of the predicate
        vals = sorted(tuple(r) for r in res)
        tv = 'False' if cmp_ == 'Ne' else 'True'
        want = {('Eq(0,BitAnd(mode(arg1),%d))=%s' % (const, tv),), ('Eq(0,BitAnd(%d,mode(arg1)))=%s' % (const, tv),)}
        ok = len(vals) == 1 and vals[0] in want
        rep.add('ENTRY-DEFAULTS', 'entrydefault:%s' % meth, 'Entry::%s == (mode() & %s %s 0)' % (meth, oct(const), '!=' if cmp_ == 'Ne' else '=='), ok,
                '%s:%d' % (B.file, B.line), '' if ok else 'Entry::%s is computed differently: it is true exactly under %s' % (meth, vals))
        for ety in ('sys::fs::memfs::entry::MemfsEntry', 'sys::fs::stdfs::entry::StdfsEntry'):
            over = '<%s as %s>::%s' % (ety, ENTRY_TR, meth)
            ok = over not in F.bodies
            rep.add('ENTRY-DEFAULTS', 'entrydefault:%s:%s' % (meth, ety.split('::')[-1]), '%s does not override %s (so it agrees with mode())' % (ety, meth), ok, '',
                    '' if ok else '%s overrides %s: it may disagree with mode()' % (ety, meth))
    # Memfs queries answer from the entry
    for m in ('is_exec', 'is_readonly'):
        fn = '<%s as %s>::%s' % (MEMFS, TR, m)
        if fn in F.bodies:
            B = cg.body(fn)
            ok = any((tt.get('callee') or '') == '%s::%s' % (ENTRY_TR, m) for i, tt in B.calls())
            rep.add('META-CONSIST', 'metaconsist:Memfs::%s' % m, 'Memfs::%s answers with the stored entry\'s %s()' % (m, m), ok, '%s:%d' % (B.file, B.line),
                    '' if ok else 'Memfs::%s does not use Entry::%s' % (m, m))

    tb = engine.load_table('setters.json')
    setters.setter(rep, F, cg, {k: v for k, v in tb.items() if k.startswith('<sys::fs::chmod::Chmod>') or k.startswith('<sys::fs::chown::Chown>')})

    setters.traversal_setup(rep, F, cg)
    clause_complete(rep, F, cg)
    import siteguard as _sg
    _t = engine.load_table('site_guards.json')
    _sg.site_guard(rep, F, cg, _t, _t['_groups']['C11'])
    return engine.finish(
        rep, 'other', EXPLANATION,
        assumptions=['the setter table transcribes the documented builder behaviour'],
        trusted_base=['rustc nightly MIR', 'extractor/', 'rules/linkrules.py, rules/setters.py, rules/atomic.py'],
        checker_cmd='./check C11', seed=ctx['seed'])
