"""PRIM-TABLE: each small pure helper relies on exactly its frozen set of primitives (std / crate functions it calls, closures included, new helpers inlined).

A value-level law such as `name(p) is base(p) without ext(p)` cannot be decided statically, but *which primitives define the notion the law talks about* can:
the helper that swaps `Path::extension` for `str::rsplit_once`, `ends_with` for `rfind`, or a terminator comparison for a character-class call changes the
definition the law quantifies over.  The table freezes the instances of the confirmed tree (agreement through time)."""
import re
import engine, inline
from mir import callee_of

# plumbing that carries no meaning of its own: conversions, `?`, iterator / formatting glue
PLUMBING = re.compile(r'(^|::)(deref|deref_mut|as_ref|as_mut|borrow|borrow_mut|branch|from_residual|from_output|into|from|to_owned|clone|to_path_buf|to_string|'
                      r'into_iter|as_str|as_os_str|to_str|as_path|as_bytes|fmt|new_display|new_debug|new_const|new_v1|must_use|format|box_assume_init_into_vec_unsafe|'
                      r'new_uninit|write_box_via_move|default|as_slice|into_boxed_slice|exchange_malloc|into_vec|to_vec|new|with_capacity|from_str|as_deref|'
                      r'call|call_mut|call_once|ok_or_else|map_err|unwrap_or_else|or_else)(::<.*)?$')          # error-side combinators: their closure's callees are listed under the function


def _short(c):
    c = re.sub(r'::<.*$', '', c)
    c = re.sub(r'^std::cmp::PartialEq::(eq|ne)$', 'std::cmp::PartialEq', c)          # `a == b` and `a != b` rely on the same primitive
    c = re.sub(r'^std::cmp::PartialOrd::(lt|le|gt|ge)$', 'std::cmp::PartialOrd', c)
    return c


GROUPS = {
    'C15': lambda n: n.startswith('sys::fs::path::') and n.split('::')[-1] not in ('expand', 'clean', 'relative', 'home_dir'),
    'C17': lambda n: n in ('sys::fs::path::expand', 'sys::fs::path::home_dir'),
    'C18': lambda n: n.startswith('sys::user::') and n.split('::')[-1] in ('getrids', 'config_dir', 'cache_dir', 'data_dir', 'state_dir', 'runtime_dir', 'sys_config_dirs',
                                                                            'sys_data_dirs', 'path_dirs', 'home_dir'),
    'C19': lambda n: n.startswith(('<str as core::', '<std::string::String as core::', '<T as core::iter::', '<std::option::Option<T> as core::',
                                   '<std::iter::Peekable<I> as core::', '<core::peekable::', '<std::path::Component', '<std::ffi::OsStr as core', '<std::path::Path as core::')),
}


def select_all(n):
    return any(g(n) for g in GROUPS.values())


def collect(F, cg, select):
    res = {}
    for name in cg.names():
        b = F.bodies[name]
        root = b.get('root') if b['kind'] == 'Closure' else name
        if not root or not select(root):
            continue
        if inline.is_new_helper(F, root):
            continue
        out = res.setdefault(root, set())
        for _B, i, t, _f, _inl in inline.walk_calls(F, cg, name, lambda B, i: [], lambda d, v: (d, v)):
            c = t.get('callee') or callee_of(t) or ''
            if not c or PLUMBING.search(c):
                continue
            if c.startswith(root + '::{closure'):
                continue
            out.add(_short(c))
    return {k: sorted(v) for k, v in res.items()}


def prim_table(rep, F, cg, table, select, rule='PRIM-TABLE', floor=3):
    if hasattr(cg, 'prune_never_err'):
        cg = type(cg)(F)          # frozen instances are compared on unpruned control-flow graphs, as at freeze time
    rep.rule(rule, 'each selected helper (with its closures; helpers that did not exist in the confirmed tree are inlined) calls exactly the primitives frozen in '
             'tables/primitives.json, conversions / `?` / formatting plumbing aside: the std or crate operation that defines what the helper computes '
             '(Path::extension, ends_with, strip_prefix, the character tests of a scanner ...) is the confirmed one')
    cur = collect(F, cg, select)
    n = 0
    for fn in sorted({k for k in set(table) | set(cur) if select(k)}):
        n += 1
        want, got = table.get(fn), cur.get(fn)
        if want is None:
            if inline.is_new_helper(F, fn) or not got:
                n -= 1
                continue
            rep.add(rule, 'prims:%s' % fn, '%s is a frozen helper' % fn, False, '', 'helper %s is not in the frozen table (calls %s)' % (fn, got))
            continue
        if got is None:
            got = [] if fn in F.bodies else None
        if got is None:
            rep.add(rule, 'prims:%s' % fn, '%s exists' % fn, False, '', 'helper %s no longer exists' % fn)
            continue
        ok = want == got
        ti = F.bodies[fn].get('trait_item') if fn in F.bodies else None
        if not ok and ti and got == [ti]:
            ok = True          # became a plain forwarder to a sibling implementation of the same trait method (which is itself in the table)
        add, rem = sorted(set(got) - set(want)), sorted(set(want) - set(got))
        rep.add(rule, 'prims:%s' % fn, '%s relies on its frozen primitives' % fn, ok, '',
                '' if ok else '%s changed the primitives it is built from: now also calls %s, no longer calls %s' % (fn, add, rem))
    rep.floor(rule, 'helpers', n, max(1, len([k for k in table if select(k)])))
