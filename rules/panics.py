"""NO-PANIC-UNDER-GUARD, UNIT (bytes vs chars), ARITH — potential panic sites and their discharge."""
import re
from collections import defaultdict
from mir import Body, callee_of, op_local, op_place, place_key
import locks as _locks
import engine

# external callees that panic on some inputs (std API contract), by regex on the declared/resolved callee path
MAY_PANIC = [
    (r'^<std::option::Option<T>>::(unwrap|expect)$', 'unwrap'),
    (r'^<std::result::Result<T, E>>::(unwrap|expect|unwrap_err|expect_err)$', 'unwrap'),
    (r'::index$|::index_mut$', 'index'),
    (r'^<str>::split_at(_mut)?$|^<\[T\]>::split_at(_mut)?$', 'split_at'),
    (r'^<\[T\]>::copy_from_slice$|^<\[T\]>::clone_from_slice$', 'copy_from_slice'),
    (r'^<std::vec::Vec<T, A>>::(remove|insert|swap_remove|drain|split_off|truncate_front)$', 'vec_index'),
    (r'^<std::string::String>::(remove|insert|insert_str|drain|split_off|replace_range)$', 'string_index'),
    (r'^std::rt::panic_fmt$|^core::panicking::|^std::rt::begin_panic|^std::panicking::|^std::process::abort$|^std::process::exit$', 'panic'),
    (r'^<std::cell::RefCell<T>>::borrow(_mut)?$', 'refcell'),
    (r'^<std::collections::VecDeque<T, A>>::(remove|insert|swap_remove_back|swap_remove_front)$', 'vec_index'),
    (r'^<std::time::Instant as std::ops::Sub', 'time'),
    (r'^<std::iter::StepBy|^<[^>]*>::step_by$|^<[^>]*>::chunks(_exact)?$|^<[^>]*>::windows$', 'zero_step'),
    (r'^<std::sync::Mutex<T>>::lock$', 'lock'),
    (r'^<(isize|i8|i16|i32|i64|i128)>::abs$', 'abs_min'),          # panics for the MIN value when overflow checks are on (inherited from the caller)
]
MAY_PANIC = [(re.compile(r), k) for r, k in MAY_PANIC]


def panic_kind(t):
    for name in (t.get('callee'), t.get('resolved')):
        if not name:
            continue
        for rx, k in MAY_PANIC:
            if rx.search(name):
                return k
    return None


def _lname(B, l):
    n = B.local_name(l)
    return n if n else None


def describe_operand(B, o, depth=0):
    """stable, human-readable description of where an operand comes from (names, callees, constants; never line numbers)"""
    if o['k'] == 'const':
        s = B.norm_operand(o)
        return s.replace('const:', '')
    p = op_place(o)
    if p is None:
        return o['k']
    return describe_place(B, p, depth)


def describe_place(B, p, depth=0):
    l = p['l']
    base = describe_local(B, l, depth)
    s = base
    for e in p['p']:
        if e['k'] == 'field':
            if 'closure' in e and e['i'] in B.upvar_names:
                s = B.upvar_names[e['i']]
            else:
                s = '%s.%s' % (s, e.get('name', e['i']))
        elif e['k'] == 'deref':
            pass
        elif e['k'] == 'downcast':
            s = '%s as %s' % (s, e['variant'])
        elif e['k'] == 'index':
            s = '%s[%s]' % (s, describe_local(B, e['local'], depth + 1))
    return s


def describe_local(B, l, depth=0):
    n = _lname(B, l)
    if n:
        return n
    if depth > 6:
        return '_'
    ds = B.whole_defs(l)
    if len(ds) == 1:
        d = ds[0]
        if d[0] == 'call':
            t = d[3]
            c = (t.get('callee') or callee_of(t) or '?')
            short = c.split('::')[-1]
            args = ','.join(describe_operand(B, a, depth + 1) for a in t['args'][:3])
            return '%s(%s)' % (short, args)
        rv = d[4]
        k = rv['k']
        if k == 'use':
            return describe_operand(B, rv['op'], depth + 1)
        if k in ('ref', 'copyforderef'):
            return describe_place(B, rv['place'], depth + 1)
        if k == 'cast':
            return describe_operand(B, rv['op'], depth + 1)
        if k == 'binop':
            return '%s(%s,%s)' % (rv['op'].replace('WithOverflow', ''), describe_operand(B, rv['l'], depth + 1), describe_operand(B, rv['r'], depth + 1))
        if k == 'unop':
            return '%s(%s)' % (rv['op'], describe_operand(B, rv['a'], depth + 1))
        if k == 'aggregate':
            return rv.get('variant') or rv['agg']
        if k == 'discr':
            return 'discr(%s)' % describe_place(B, rv['place'], depth + 1)
        return k
    if 1 <= l <= B.nargs:
        return 'arg%d' % l
    return '_'


def describe_def(B, l, depth=0):
    """description of the *definition* of a local (ignores the local's own debug name)"""
    ds = B.whole_defs(l)
    if len(ds) != 1:
        return None
    d = ds[0]
    if d[0] == 'call':
        t = d[3]
        c = (t.get('callee') or callee_of(t) or '?')
        return '%s(%s)' % (c.split('::')[-1], ','.join(describe_operand(B, a, depth + 1) for a in t['args'][:3]))
    rv = d[4]
    k = rv['k']
    if k in ('use', 'cast'):
        o = rv['op']
        if o['k'] == 'const':
            return describe_operand(B, o)
        p = op_place(o)
        if p is not None and not p['p'] and not B.local_name(p['l']):
            return describe_def(B, p['l'], depth + 1) or describe_operand(B, o, depth + 1)
        return describe_operand(B, o, depth + 1)
    if k == 'binop':
        return '%s(%s,%s)' % (rv['op'].replace('WithOverflow', ''), describe_operand(B, rv['l'], depth + 1), describe_operand(B, rv['r'], depth + 1))
    if k in ('ref', 'copyforderef'):
        return describe_place(B, rv['place'], depth + 1)
    return describe_local(B, l, depth) if not B.local_name(l) else None


def excuse_applies(B, entry, bb=None):
    """(reason, problem): an excuse may demand that named locals still have the definitions its invariant relies on, and (requires_facts, with the block of the
    site) that given branch facts dominate the site"""
    if isinstance(entry, str):
        return entry, None
    if entry.get('requires_facts') and bb is not None:
        from errguard import structural_facts
        have = {'%s=%s' % (d, v) for d, v in structural_facts(B, bb)}
        for want in entry['requires_facts']:
            if want not in have:
                return entry['reason'], 'the excuse requires the dominating fact %s; the site is reached under %s' % (want, sorted(have))
    req = entry.get('requires', {})
    for name, want in req.items():
        ls = [i for i in range(len(B.locals)) if B.local_name(i) == name]
        got = None
        for l in ls:
            got = describe_def(B, l)
            if got == want:
                break
        if got != want:
            return entry['reason'], 'the excuse requires `%s` to be defined as %s but it is %s' % (name, want, got)
    return entry['reason'], None


# ------------------------------------------------------------------ structural (name-free) descriptions
def _short_ty(ty):
    ty = re.sub(r"'[a-z_]+ ?", '', ty)
    ty = re.sub(r'\b(?:[a-z_0-9]+::)+', '', ty)
    return ty


_CONVERSIONS = ('deref', 'deref_mut', 'as_ref', 'as_mut', 'borrow', 'borrow_mut', 'branch', 'into', 'from', 'to_owned', 'clone', 'to_path_buf', 'as_slice', 'as_str', 'must_use',
                'as_path', 'as_os_str', 'as_mut_slice', 'as_deref', 'into_boxed_path', 'into_path_buf', 'as_mut_str')
HELPER_RESULT = None      # hook (siteguard): description of the value a helper that did not exist in the confirmed tree returns, or None
PHI = False        # set only while the frozen-skeleton tables are collected (siteguard): excuse-table keys never contain phi(..)
ALIASES = {}      # short callee name -> canonical role name (set by the check driver from roles.aliases)


def _short(c):
    n = c.split('::')[-1]
    return ALIASES.get(n, n)


def sdesc_operand(B, o, depth=0):
    if o['k'] == 'const':
        return B.norm_operand(o).replace('const:', '')
    p = op_place(o)
    if p is None:
        return o['k']
    return sdesc_place(B, p, depth)


def _tuple_field(s, i):
    """`tuple(A,B).0` is A (only used for the frozen-skeleton descriptions)"""
    if not (s.startswith('tuple(') and s.endswith(')')):
        return None
    inner, parts, depth_, cur = s[6:-1], [], 0, ''
    for ch in inner:
        if ch in '([{<':
            depth_ += 1
        elif ch in ')]}>':
            depth_ -= 1
        if ch == ',' and depth_ == 0:
            parts.append(cur)
            cur = ''
        else:
            cur += ch
    parts.append(cur)
    return parts[i] if depth_ == 0 and 0 <= i < len(parts) else None


def sdesc_place(B, p, depth=0):
    # Ok-path payloads: (branch(X) as Continue).0 and (X as Ok).0 both mean "the value of X when it succeeded"  ==>  X?
    if len(p['p']) >= 2 and p['p'][0]['k'] == 'downcast' and p['p'][0]['variant'] in ('Continue', 'Ok') and p['p'][1]['k'] == 'field':
        ds = B.whole_defs(p['l'])
        if p['p'][0]['variant'] == 'Continue' and len(ds) == 1 and ds[0][0] == 'call' and (ds[0][3].get('callee') or '').endswith('Try::branch'):
            if PHI and (callee_of(ds[0][3]) or '').startswith('<std::option::Option<T> as std::ops::Try>'):
                base = sdesc_operand(B, ds[0][3]['args'][0], depth) + ' as Some.0'          # `x?` on an Option is the payload `if let Some(v) = x` binds
            else:
                base = sdesc_operand(B, ds[0][3]['args'][0], depth) + '?'
        else:
            base = sdesc_local(B, p['l'], depth) + '?'
        s = base
        for e in p['p'][2:]:
            if e['k'] == 'field':
                s = '%s.%s' % (s, e.get('name', e['i']))
            elif e['k'] == 'downcast':
                s = '%s as %s' % (s, e['variant'])
        return s
    s = sdesc_local(B, p['l'], depth)
    for e in p['p']:
        if e['k'] == 'field':
            if 'closure' in e and (PHI or e['i'] in B.upvar_names):
                un = B.upvar_names.get(e['i'], '')
                if PHI:
                    s = 'upvar#%d' % e['i'] + (un[un.index('.'):] if '.' in un else '')          # position of the capture (the skeleton substitutes the captured operand)
                else:
                    s = 'upvar' + (un[un.index('.'):] if '.' in un else '<%s>' % _short_ty(e.get('ty', '')))
            else:
                picked = _tuple_field(s, e['i']) if PHI else None
                s = picked if picked is not None else '%s.%s' % (s, e.get('name', e['i']))
        elif e['k'] == 'downcast':
            s = '%s as %s' % (s, e['variant'])
        elif e['k'] == 'index':
            s = '%s[%s]' % (s, sdesc_local(B, e['local'], depth + 1))
    return s


def sdesc_local(B, l, depth=0):
    """description of a local that does not depend on variable names: parameters by position, single-definition locals by
    their definition (depth-limited), everything else by type"""
    if 1 <= l <= B.nargs and not B.whole_defs(l):
        return 'arg%d' % l
    if depth > 6:
        return 'var<%s>' % _short_ty(B.local_ty(l))
    ds = B.whole_defs(l)
    if len(ds) == 1:
        d = ds[0]
        if d[0] == 'call':
            t = d[3]
            c = _short(t.get('callee') or callee_of(t) or '?')
            if c.startswith('box_assume_init_into_vec'):
                return 'vec!'
            if c in _CONVERSIONS and t['args']:
                return sdesc_operand(B, t['args'][0], depth)
            if PHI and t['args'] and len(t['args']) <= 2:
                # x.unwrap() / x.expect(..) / x.unwrap_err() are the payload of x (the same value `if let` / `match` bind)
                full = t.get('callee') or ''
                if full in ('<std::option::Option<T>>::unwrap', '<std::option::Option<T>>::expect'):
                    return sdesc_operand(B, t['args'][0], depth) + ' as Some.0'
                if full in ('<std::result::Result<T, E>>::unwrap', '<std::result::Result<T, E>>::expect'):
                    return sdesc_operand(B, t['args'][0], depth) + '?'
                if full in ('<std::result::Result<T, E>>::unwrap_err', '<std::result::Result<T, E>>::expect_err'):
                    return sdesc_operand(B, t['args'][0], depth) + ' as Err.0'
            if PHI and HELPER_RESULT is not None:
                r = HELPER_RESULT(t, [sdesc_operand(B, a, depth + 1) for a in t['args']])
                if r is not None:
                    return r
            return '%s(%s)' % (c, ','.join(sdesc_operand(B, a, depth + 1) for a in t['args'][:3]))
        return sdesc_rv(B, d[4], depth)
    if PHI and 2 <= len(ds) <= 6 and depth <= 2 and all(d[0] in ('call', 'assign') for d in ds):
        # (only for the frozen-skeleton tables) a variable assigned on a few paths is described by the set of its definitions
        alts = set()
        for d in ds:
            if d[0] == 'call':
                t = d[3]
                cs = _short(t.get('callee') or callee_of(t) or '?')
                if cs in _CONVERSIONS and t['args']:
                    alts.add(sdesc_operand(B, t['args'][0], depth + 3))
                else:
                    alts.add('%s(%s)' % (cs, ','.join(sdesc_operand(B, a, depth + 3) for a in t['args'][:3])))
            else:
                alts.add(sdesc_rv(B, d[4], depth + 3))
        return 'phi(%s)' % '|'.join(sorted(alts))
    return 'var<%s>' % _short_ty(B.local_ty(l))


def sdesc_rv(B, rv, depth=0):
    """structural description of an rvalue (see sdesc_local)"""
    k = rv['k']
    if k == 'cast' and PHI and str(rv.get('cast', '')).startswith(('IntToInt', 'FloatToInt', 'IntToFloat', 'FloatToFloat')):
        return 'as<%s>(%s)' % (_short_ty(rv.get('to', '')), sdesc_operand(B, rv['op'], depth))          # numeric casts can truncate: the target type is part of the value
    if k in ('use', 'cast'):
        return sdesc_operand(B, rv['op'], depth)
    if k in ('ref', 'copyforderef'):
        return sdesc_place(B, rv['place'], depth)
    if k == 'binop':
        return '%s(%s,%s)' % (rv['op'].replace('WithOverflow', ''), sdesc_operand(B, rv['l'], depth + 1), sdesc_operand(B, rv['r'], depth + 1))
    if k == 'unop':
        inner = sdesc_operand(B, rv['a'], depth + 1)
        if PHI and rv['op'] == 'Not':
            for a_, b_ in (('Eq(', 'Ne('), ('Ne(', 'Eq('), ('Not(', '')):
                if inner.startswith(a_) and inner.endswith(')'):
                    return (b_ + inner[len(a_):]) if b_ else inner[len(a_):-1]
        return '%s(%s)' % (rv['op'], inner)
    if k == 'aggregate':
        head = rv.get('variant') or rv['agg']
        if 0 < len(rv['ops']) <= 3 and rv['agg'] in ('adt', 'tuple'):
            inner = [sdesc_operand(B, o, depth + 1) for o in rv['ops']]
            if PHI and len(inner) == 1 and head in ('Ok', 'Err', 'Some') and inner[0].endswith(' as %s.0' % head):
                return inner[0][:-len(' as %s.0' % head)]          # Err(e) rebuilt from x's own Err payload is x
            return '%s(%s)' % (head, ','.join(inner))
        return head
    if k == 'discr':
        return 'discr(%s)' % sdesc_place(B, rv['place'], depth + 1)
    return k


def skey_call(B, t):
    c = _short(t.get('callee') or callee_of(t) or '?')
    return '%s(%s)' % (c, ','.join(sdesc_operand(B, a) for a in t['args'][:3]))


class Site:
    __slots__ = ('fn', 'bb', 'kind', 'desc', 'key', 'loc', 'from_macro')

    def __init__(self, fn, bb, kind, desc, loc, from_macro, sdesc=None):
        self.fn = fn
        self.bb = bb
        self.kind = kind
        self.desc = desc          # human readable (uses variable names)
        self.loc = loc
        self.from_macro = from_macro
        # the key is structural: it does not change when a variable is renamed, and it does change when the
        # computation feeding the site changes (so a table excuse never silently covers different code)
        self.key = '%s|%s|%s' % (fn, kind, sdesc if sdesc is not None else desc)


def panic_sites(B):
    """all potential panic sites of one body (normal blocks)"""
    out = []
    for i in sorted(B.normal):
        t = B.term(i)
        sp = B.blocks[i]['span']
        mac = sp.get('expn', [])
        if t['k'] == 'assert':
            msg = t['msg']
            if msg.startswith('overflow'):
                op = msg.split(':')[1]
                desc = '%s(%s,%s)' % (op, describe_operand(B, t['l']), describe_operand(B, t['r']))
                sd = '%s(%s,%s)' % (op, sdesc_operand(B, t['l']), sdesc_operand(B, t['r']))
                out.append(Site(B.name, i, 'overflow', desc, B.loc(i), mac, sd))
            elif msg == 'bounds':
                desc = 'len=%s idx=%s' % (describe_operand(B, t['l']), describe_operand(B, t['r']))
                sd = 'len=%s idx=%s' % (sdesc_operand(B, t['l']), sdesc_operand(B, t['r']))
                out.append(Site(B.name, i, 'bounds', desc, B.loc(i), mac, sd))
            else:
                out.append(Site(B.name, i, msg, describe_operand(B, t['cond']), B.loc(i), mac))
        elif t['k'] == 'call':
            k = panic_kind(t)
            if k:
                c = t.get('callee') or callee_of(t)
                args = ','.join(describe_operand(B, a) for a in t['args'][:2])
                head = c.split('::')[-1] if k != 'index' else _index_callee(t)
                desc = '%s(%s)' % (head, args)
                sargs = []
                for a in t['args'][:2]:
                    sa = sdesc_operand(B, a)
                    # a range operand: describe its bounds
                    la = op_local(a)
                    if la is not None and sa in ('Range', 'RangeFrom', 'RangeTo', 'RangeInclusive', 'RangeToInclusive'):
                        dd = B.whole_defs(la)
                        if len(dd) == 1 and dd[0][0] == 'assign' and dd[0][4]['k'] == 'aggregate':
                            sa = '%s[%s]' % (sa, ','.join(sdesc_operand(B, o) for o in dd[0][4]['ops']))
                    sargs.append(sa)
                out.append(Site(B.name, i, k, desc, B.loc(i), mac, '%s(%s)' % (head, ','.join(sargs))))
    return out


def _index_callee(t):
    st = t.get('self_ty') or ''
    g = t['func'].get('gargs', [])
    idx = g[1] if len(g) > 1 else ''
    idx = idx.replace('std::ops::', '')
    return 'index<%s,%s>' % (st.replace('std::string::', '').replace('std::vec::', '').replace('std::collections::', ''), idx)


def guard_closure(A):
    """functions that may run while a Memfs guard is held: reachable from terminators inside guard-live regions.
    Returns fn -> (kind 'write'|'read'|'either', example owner) and the region points themselves."""
    cg = A.cg
    roots = {}
    points = []   # (owner fn, bb, kind)
    for n in cg.names():
        B = cg.body(n)
        for R in _locks.guard_regions(B):
            kind = R.kind
            if kind == 'either':
                acq = R.acquired_by or ''
                kind = 'write' if acq.endswith('write_guard') else 'read' if acq.endswith('read_guard') else 'either'
            by_bb = defaultdict(list)
            for e in cg.edges(n):
                by_bb[e.bb].append(e)
            for bb in set(R.points) | set(R.blocks):
                points.append((n, bb, kind))
                for e in by_bb.get(bb, []):
                    prev = roots.get(e.target)
                    if prev is None or (prev[0] != 'write' and kind == 'write'):
                        roots[e.target] = (kind, n)
    # closure over callees
    reach = dict(roots)
    work = list(roots)
    while work:
        x = work.pop()
        kx = reach[x][0]
        for e in cg.edges(x):
            prev = reach.get(e.target)
            if prev is None or (prev[0] != 'write' and kx == 'write'):
                reach[e.target] = (kx, reach[x][1])
                work.append(e.target)
    return reach, points


# ===================================================================================== discharge
CMP_OPS = ('Gt', 'Lt', 'Ge', 'Le', 'Eq', 'Ne')


def known_facts(B, bb):
    """(description, truth) of every boolean test whose outcome is fixed at block bb (the block is dominated by exactly one
    side of a two-way switch on that boolean)"""
    out = []
    for d in B.dom[bb]:
        if d == bb:
            continue
        t = B.term(d)
        if t['k'] != 'switch' or t.get('discr_ty') != 'bool':
            continue
        if t['discr']['k'] not in ('copy', 'move'):
            continue
        false_t = [tb for v, tb in t['targets'] if v == '0']
        one_t = [tb for v, tb in t['targets'] if v == '1']
        true_t = one_t[0] if one_t else t['otherwise']
        if len(false_t) != 1 or false_t[0] == true_t:
            continue
        desc = describe_operand(B, t['discr'])
        if B.dominates(true_t, bb) and B.preds[true_t] == [d] and not B.dominates(false_t[0], bb):
            out.append((desc, True))
        elif B.dominates(false_t[0], bb) and B.preds[false_t[0]] == [d] and not B.dominates(true_t, bb):
            out.append((desc, False))
    # unwrap `Not(x)`
    res = []
    for desc, truth in out:
        while desc.startswith('Not(') and desc.endswith(')'):
            desc = desc[4:-1]
            truth = not truth
        res.append((desc, truth))
    return res


def _strip_abs(d):
    m = re.match(r'^(unsigned_abs|abs)\((.*)\)$', d)
    return (m.group(2), True) if m else (d, False)


def _is_unit_counter(B, l):
    """an integer local of at least 32 bits all of whose definitions are a constant, x + 1 or x - 1 of itself"""
    ty = B.local_ty(l)
    if ty not in ('usize', 'u64', 'isize', 'i64', 'u32', 'i32', 'u128', 'i128'):
        return False
    ds = B.defs.get(l, [])
    if not ds:
        return False
    for d in ds:
        if d[0] != 'assign' or d[3]['p']:
            return False
        rv = d[4]
        if rv['k'] == 'use':
            o = rv['op']
            if o['k'] == 'const':
                continue
            src = op_place(o)
            # x = move (tmp.0) where tmp = AddWithOverflow(x, 1)
            if src is not None and src['p'] and src['p'][-1]['k'] == 'field':
                tds = B.whole_defs(src['l'])
                if len(tds) == 1 and tds[0][0] == 'assign' and tds[0][4]['k'] == 'binop' and tds[0][4]['op'] in ('AddWithOverflow', 'SubWithOverflow'):
                    b = tds[0][4]
                    if op_local(b['l']) == l and b['r']['k'] == 'const' and b['r'].get('int') == '1':
                        continue
            return False
        if rv['k'] == 'binop' and rv['op'] in ('Add', 'Sub') and op_local(rv['l']) == l and rv['r']['k'] == 'const' and rv['r'].get('int') == '1':
            continue
        return False
    return True


def _find_payload(B, o):
    """if the operand is the payload `i` of `Some(i) = str::find/rfind(base, <literal>)` return (base description, literal)"""
    l = op_local(o)
    if l is None:
        return None
    p = None
    for _ in range(8):
        ds = B.whole_defs(l)
        if len(ds) != 1 or ds[0][0] != 'assign' or ds[0][4]['k'] != 'use':
            return None
        p = op_place(ds[0][4]['op'])
        if p is None:
            return None
        if not p['p']:
            l = p['l']
            continue
        break
    if p is None or not p['p'] or p['p'][-1]['k'] != 'field':
        return None
    cds = B.whole_defs(p['l'])
    if len(cds) != 1 or cds[0][0] != 'call':
        return None
    t = cds[0][3]
    c = t.get('callee') or ''
    if c not in ('<str>::find', '<str>::rfind'):
        return None
    pat = t['args'][1]
    lit = None
    if pat['k'] == 'const' and 'str' in pat:
        lit = pat['str']
    return describe_operand(B, t['args'][0]), lit


SHRINK = re.compile(r'::(pop|clear|truncate|remove|swap_remove|drain|split_off|retain|retain_mut|dedup|take|replace|swap|pop_front|pop_back|next|nth|last|next_back)$')


def _strip_wrappers(d):
    """strip deref/deref_mut/as_ref wrappers from a description"""
    changed = True
    while changed:
        changed = False
        m = re.match(r'^(deref|deref_mut|as_ref|as_mut|borrow|borrow_mut)\((.*)\)$', d)
        if m:
            d = m.group(2)
            changed = True
    return d


def _can_reach(B, target):
    """blocks from which `target` is reachable over normal edges"""
    seen = {target}
    work = [target]
    while work:
        x = work.pop()
        for p in B.preds.get(x, []):
            if p not in seen:
                seen.add(p)
                work.append(p)
    return seen


def _no_shrink_between(B, start, site_bb, xdesc, test_bb=None):
    """no call that could shrink / replace container `xdesc` on any path from block `start` to the site
    (paths that re-enter the establishing test/push block re-establish the fact and are not considered)"""
    if start == site_bb:
        return True
    seen = set()
    work = [start]
    while work:
        x = work.pop()
        if x in seen or x == test_bb:
            continue
        seen.add(x)
        if x == site_bb:
            continue
        for nx in B.succs(x):
            work.append(nx)
    between = seen & _can_reach(B, site_bb)
    for b in between:
        if b == site_bb:
            continue
        t = B.term(b)
        if t['k'] == 'call' and t['args']:
            c = t.get('callee') or ''
            if SHRINK.search(c) and _strip_wrappers(describe_operand(B, t['args'][0])) == xdesc:
                return False
        if b != start:
            for st in B.blocks[b]['stmts']:
                if st['k'] == 'assign' and st['place']['p'] and describe_place(B, st['place']) == xdesc:
                    return False
    return True


def _nonempty_idiom(B, site, t):
    """unwrap(last/last_mut/first/pop(X)) where X is known non-empty: dominated by a push on X or by a failed is_empty(X) test,
    with nothing that could shrink X in between"""
    a = t['args'][0]
    l = op_local(a)
    if l is None:
        return None
    ds = B.whole_defs(l)
    if len(ds) != 1 or ds[0][0] != 'call':
        return None
    ct = ds[0][3]
    c = ct.get('callee') or ''
    if not re.search(r'::(last|last_mut|first|first_mut|pop|pop_front|pop_back)$', c) or not ct['args']:
        return None
    x = _strip_wrappers(describe_operand(B, ct['args'][0]))
    getter_bb = ds[0][1]
    # failed is_empty test
    for d in B.dom[getter_bb]:
        tt = B.term(d)
        if tt['k'] == 'switch' and tt.get('discr_ty') == 'bool':
            dl = op_local(tt['discr'])
            if dl is None:
                continue
            desc = describe_local(B, dl)
            truth_needed = None
            inner = desc
            neg = False
            while inner.startswith('Not(') and inner.endswith(')'):
                inner = inner[4:-1]
                neg = not neg
            m = re.match(r'^is_empty\((.*)\)$', inner)
            if not m or _strip_wrappers(m.group(1)) != x:
                continue
            # which edge means "not empty"?
            false_t = [tb for v, tb in tt['targets'] if v == '0']
            true_t = tt['otherwise']
            if len(false_t) != 1:
                continue
            nonempty_target = true_t if neg else false_t[0]
            other = false_t[0] if neg else true_t
            if B.dominates(nonempty_target, getter_bb) and B.preds[nonempty_target] == [d] and not B.dominates(other, getter_bb):
                if _no_shrink_between(B, nonempty_target, getter_bb, x, d):
                    return 'container `%s` tested non-empty by a dominating is_empty() check with no shrinking call in between' % x
        if tt['k'] == 'call' and (tt.get('callee') or '').endswith('>::push') and tt['args']:
            if _strip_wrappers(describe_operand(B, tt['args'][0])) == x and d != getter_bb:
                if _no_shrink_between(B, tt['target'], getter_bb, x, d):
                    return 'container `%s` has just been pushed to (dominating push, no shrinking call in between)' % x
    return None


def discharge(B, site, t):
    """returns a reason string when the potential panic site is discharged by a recognised idiom, else None"""
    bb = site.bb
    facts = None
    if site.kind == 'vec_index' and (t.get('callee') or '').endswith('>::insert') and len(t['args']) >= 2 \
            and t['args'][1]['k'] == 'const' and str(t['args'][1].get('int')) == '0':
        return 'insert at the constant index 0 (0 <= len always holds)'
    if site.kind == 'unwrap' and (t.get('callee') or '').endswith(('::unwrap_err', '::expect_err')):
        from errguard import structural_facts as _sf
        d0 = sdesc_operand(B, t['args'][0])
        if any(d == d0 and v == 'Err' for d, v in _sf(B, bb)):
            return 'unwrap_err under the dominating test that %s is Err' % d0
    if site.kind == 'unwrap':
        a = t['args'][0]
        l = op_local(a)
        if l is not None:
            ds = B.whole_defs(l)
            if len(ds) == 1 and ds[0][0] == 'call':
                c = ds[0][3].get('callee') or ''
                if c in _locks.ACQUIRE:
                    return 'lock result: the lock is poisoned only by a panic under a write guard, which this rule excludes'
        r = _nonempty_idiom(B, site, t)
        if r:
            return r
    if site.kind == 'overflow':
        op = t['msg'].split(':')[1]
        lo, ro = t['l'], t['r']
        facts = known_facts(B, bb)
        ld = describe_operand(B, lo)
        rd = describe_operand(B, ro)
        if op == 'Sub' and ro['k'] == 'const' and ro.get('int') == '1':
            root, was_abs = _strip_abs(ld)
            for desc, truth in facts:
                if not truth:
                    continue
                if desc in ('Gt(%s,0)' % root, 'Ne(%s,0)' % root) and not was_abs:
                    return 'x - 1 under the dominating test %s' % desc
                if was_abs and desc in ('Lt(%s,0)' % root, 'Gt(%s,0)' % root, 'Ne(%s,0)' % root):
                    return '|x| - 1 under the dominating test %s' % desc
        if op == 'Sub':
            ml = re.match(r'^len\((.*)\)$', ld)
            mr = re.match(r'^len\((.*)\)$', rd)
            if ml and mr:
                for desc, truth in facts:
                    mm = re.match(r'^(ends_with|starts_with)\((.*),(.*)\)$', desc)
                    if truth and mm and _strip_wrappers(mm.group(2)) == _strip_wrappers(ml.group(1)) and _strip_wrappers(mm.group(3)) == _strip_wrappers(mr.group(1)):
                        return 'len(a) - len(b) under the dominating test %s' % desc
            for desc, truth in facts:
                if truth and desc in ('Ge(%s,%s)' % (ld, rd), 'Gt(%s,%s)' % (ld, rd), 'Le(%s,%s)' % (rd, ld), 'Lt(%s,%s)' % (rd, ld)):
                    return 'a - b under the dominating test %s' % desc
                if (not truth) and desc in ('Lt(%s,%s)' % (ld, rd), 'Gt(%s,%s)' % (rd, ld)):
                    return 'a - b under the failed test %s' % desc
        if op in ('Add', 'Sub') and ro['k'] == 'const' and ro.get('int') == '1':
            l = op_local(lo)
            if l is not None and _is_unit_counter(B, l):
                return 'unit-step counter of at least 32 bits (cannot wrap within feasible time or memory)'
        if op == 'Add' and ro['k'] == 'const':
            fp = _find_payload(B, lo)
            if fp and fp[1] is not None and int(ro['int']) <= len(fp[1].encode()):
                return 'offset of a found literal %r plus at most its length' % fp[1]
    if site.kind == 'index' and (t.get('self_ty') in ('str', 'std::string::String')) and len(t['args']) == 2:
        rl = op_local(t['args'][1])
        base = _strip_wrappers(describe_operand(B, t['args'][0]))
        ds = B.whole_defs(rl) if rl is not None else []
        if len(ds) == 1 and ds[0][0] == 'assign' and ds[0][4]['k'] == 'aggregate':
            rv = ds[0][4]
            facts = known_facts(B, bb)
            adt = rv.get('adt', '')
            offs = [_strip_wrappers(describe_operand(B, o)) for o in rv['ops']]
            if adt.endswith('RangeFrom') and len(offs) == 1:
                m = re.match(r'^len\((.*)\)$', offs[0])
                if m:
                    for desc, truth in facts:
                        mm = re.match(r'^starts_with\((.*),(.*)\)$', desc)
                        if truth and mm and _strip_wrappers(mm.group(1)) == base and _strip_wrappers(mm.group(2)) == _strip_wrappers(m.group(1)):
                            return 'base[prefix.len()..] under the dominating test %s (byte length of a verified prefix is a char boundary)' % desc
            if adt.endswith('RangeTo') and len(offs) == 1:
                m = re.match(r'^Sub\(len\((.*)\),len\((.*)\)\)(\.0)?$', offs[0])
                if m and _strip_wrappers(m.group(1)) == base:
                    for desc, truth in facts:
                        mm = re.match(r'^ends_with\((.*),(.*)\)$', desc)
                        if truth and mm and _strip_wrappers(mm.group(1)) == base and _strip_wrappers(mm.group(2)) == _strip_wrappers(m.group(2)):
                            return 'base[..base.len()-suffix.len()] under the dominating test %s' % desc
    if site.kind == 'split_at':
        # split_at(base, find(base, lit) + c), c <= len(lit)
        idx = t['args'][1]
        l = op_local(idx) if idx['k'] != 'const' else None
        p = op_place(idx)
        if p is not None:
            src = p['l']
            ds = B.whole_defs(src)
            if len(ds) == 1 and ds[0][0] == 'assign' and ds[0][4]['k'] == 'use':
                p2 = op_place(ds[0][4]['op'])
                if p2 is not None:
                    src = p2['l']
                    ds = B.whole_defs(src)
            if len(ds) == 1 and ds[0][0] == 'assign' and ds[0][4]['k'] == 'binop' and ds[0][4]['op'].startswith('Add'):
                b = ds[0][4]
                fp = _find_payload(B, b['l'])
                base = describe_operand(B, t['args'][0])
                if fp and fp[1] is not None and b['r']['k'] == 'const' and int(b['r']['int']) <= len(fp[1].encode()):
                    if fp[0] == base or base.endswith('(%s)' % fp[0]) or fp[0].endswith('(%s)' % base):
                        return 'split at the offset of a found literal %r plus at most its length, on the searched string' % fp[1]
    return None


# ========================================================================================= rules
def _excuses():
    try:
        return engine.load_table('panic_excuses.json')
    except FileNotFoundError:
        return {}


def no_panic_helpers(rep, F, cg, select, rule='NO-PANIC-HELPERS', floor=10):
    """`none of these panics`: every potential panic site in the selected helper functions is discharged by an idiom or excused by one table line"""
    rep.rule(rule, 'in the selected public helpers every potential panic site (MIR overflow / bounds Assert, unwrap / expect, indexing, abs of a signed integer ...) is '
             'discharged by a recognised dominating-guard idiom or excused by exactly one table line stating the arithmetic invariant')
    exc = _excuses()
    n = 0
    for name in sorted(cg.names()):
        b = F.bodies[name]
        root = b.get('root') if b['kind'] == 'Closure' else name
        if not root or not select(root):
            continue
        B = cg.body(name)
        for s in panic_sites(B):
            if s.kind == 'ptrcheck':
                continue
            n += 1
            t = B.term(s.bb)
            why = discharge(B, s, t)
            key = 'panic:' + s.key
            desc = 'potential panic `%s` in %s' % (s.desc, s.fn)
            if why:
                o = rep.add(rule, key, desc, True, s.loc)
                o.witness = ['discharged: ' + why]
            elif s.key in exc and excuse_applies(B, exc[s.key], s.bb)[1] is None:
                rep.excuse(rule, key, desc, excuse_applies(B, exc[s.key], s.bb)[0], s.loc)
            else:
                rep.add(rule, key, desc, False, s.loc, '%s: `%s` can panic for some input and no dominating guard idiom or table invariant discharges it' % (s.fn, s.desc))
    rep.floor(rule, 'potential panic sites', n, floor)


def no_panic_under_guard(rep, F, A, write_only=False):
    """every potential panic site that can execute while a Memfs guard is held is discharged by idiom or excused by one table line"""
    rep.rule('NO-PANIC-UNDER-GUARD',
             'inside every guard-live region, transitively through callees, dynamic targets and destructors, every potential panic site (MIR Assert; '
             'calls of unwrap/expect, str/slice/map Index, split_at, copy_from_slice, Vec::remove/insert, panic_fmt ...) is discharged by a recognised '
             'dominating-guard idiom or excused by exactly one table line stating the invariant; a panic under the write guard poisons the only lock')
    exc = _excuses()
    reach, points = guard_closure(A)
    cg = A.cg
    nsites = 0
    seen = set()
    used_exc = set()

    def handle(B, s, kind, owner):
        nonlocal nsites
        if s.kind == 'ptrcheck':
            return
        if (s.fn, s.bb) in seen:
            return
        seen.add((s.fn, s.bb))
        nsites += 1
        t = B.term(s.bb)
        why = discharge(B, s, t)
        under = 'the write guard (poisons the lock: every later call panics)' if kind == 'write' else 'a read guard' if kind == 'read' else 'a guard'
        desc = 'potential panic `%s` in %s, executable under %s taken in %s' % (s.desc, s.fn, under, owner)
        key = 'panic:' + s.key
        if why:
            o = rep.add('NO-PANIC-UNDER-GUARD', key, desc, True, s.loc)
            o.witness = ['discharged: ' + why]
        elif s.key in exc and excuse_applies(B, exc[s.key])[1] is None:
            used_exc.add(s.key)
            rep.excuse('NO-PANIC-UNDER-GUARD', key, desc, excuse_applies(B, exc[s.key])[0], s.loc)
        else:
            rep.add('NO-PANIC-UNDER-GUARD', key, desc, False, s.loc,
                    '%s: `%s` can panic while %s is held (taken in %s) and no dominating guard idiom or table invariant discharges it' % (s.fn, s.desc, under, owner))

    for n, (kind, owner) in sorted(reach.items()):
        if n not in F.bodies:
            continue
        B = cg.body(n)
        for s in panic_sites(B):
            handle(B, s, kind, owner)
    pts = defaultdict(dict)
    for (n, bb, kind) in points:
        pts[n][bb] = kind if pts[n].get(bb) != 'write' else 'write'
    for n, bbs in sorted(pts.items()):
        B = cg.body(n)
        for s in panic_sites(B):
            if s.bb in bbs:
                handle(B, s, bbs[s.bb], n)
    # side condition of the open_descriptors excuse: max_descriptors is only ever a small constant
    n_md = 0
    for n in cg.names():
        B = cg.body(n)
        for i, j, s in B.assigns():
            rv = s['rv']
            vals = []
            if rv['k'] == 'aggregate' and rv.get('adt') == 'sys::fs::entries::Entries':
                vals.append(rv['ops'][rv['fields'].index('max_descriptors')])
            pl = s['place']
            if pl['p'] and pl['p'][-1]['k'] == 'field' and pl['p'][-1].get('name') == 'max_descriptors' and rv['k'] == 'use':
                vals.append(rv['op'])
            for o in vals:
                n_md += 1
                v = B.norm_operand(o)
                ok = False
                if v.startswith('const:') and v[6:].isdigit() and int(v[6:]) < 65535:
                    ok = True
                elif v.startswith('constitem:sys::fs::entries::DEFAULT_MAX_DESCRIPTORS'):
                    ok = True
                rep.add('MAXDESC-CONST', 'maxdesc:%s' % n, 'Entries.max_descriptors is set from a constant below u16::MAX in %s' % n, ok, B.loc(i),
                        '' if ok else 'max_descriptors is set from %s: `open_descriptors + 1` may overflow u16 under the guard' % v)
    rep.rule('MAXDESC-CONST', 'every value stored into Entries.max_descriptors is a constant below u16::MAX (side condition of the open_descriptors excuses)')
    rep.floor('MAXDESC-CONST', 'stores to max_descriptors', n_md, 2)
    rep.floor('NO-PANIC-UNDER-GUARD', 'functions executable under a guard', len(reach), 60)
    rep.floor('NO-PANIC-UNDER-GUARD', 'potential panic sites under a guard', nsites, 12)
    rep.analysed['functions_under_guard'] = len(reach)
    rep.analysed['panic_sites_under_guard'] = nsites
    return reach


CHAR_COUNT = ('<str as core::string::StringExt>::size', '<std::string::String as core::string::StringExt>::size', 'core::string::StringExt::size')


def _range_offsets(B, t):
    """operands used as offsets by a str/String index or split_at call"""
    c = t.get('callee') or ''
    if c.endswith('::split_at') or c.endswith('::split_at_mut'):
        return [t['args'][1]]
    # index(self, range): range local defined by aggregate Range/RangeFrom/RangeTo/RangeInclusive
    if len(t['args']) < 2:
        return []
    l = op_local(t['args'][1])
    if l is None:
        return []
    outs = []
    for d in B.whole_defs(l):
        if d[0] == 'assign' and d[4]['k'] == 'aggregate':
            outs.extend(d[4]['ops'])
        elif d[0] == 'call':
            outs.extend(d[3]['args'])   # RangeInclusive::new(a, b)
    return outs


def unit_sites(B):
    """(bb, terminator) of string slicing operations"""
    for i, t in B.calls():
        c = t.get('callee') or ''
        st = t.get('self_ty') or ''
        if (c.endswith('::index') or c.endswith('::index_mut')) and st in ('str', 'std::string::String'):
            yield i, t
        elif c in ('<str>::split_at', '<str>::split_at_mut', '<std::string::String>::truncate', '<std::string::String>::split_off',
                   '<std::string::String>::insert', '<std::string::String>::insert_str', '<std::string::String>::remove', '<std::string::String>::drain'):
            yield i, t


def unit(rep, F, cg, only_files=None):
    rep.rule('UNIT', 'the offset operand of every str/String range-index (and split_at / truncate / insert / remove) has provenance in the byte family '
             '(len, find, rfind, char_indices, literals) and never in the char-count family (StringExt::size, chars().count()), and conversely a chars() '
             'iterator is never advanced (skip / take / nth) by a byte length: mixing the two units mis-slices or panics on multi-byte input')
    n = 0

    def transparent(term):
        c = term.get('callee') or ''
        if c in CHAR_COUNT:
            return None
        return None
    for name in cg.names():
        B = cg.body(name)
        for i, t in unit_sites(B):
            n += 1
            offs = _range_offsets(B, t) if not (t.get('callee') or '').startswith('<std::string::String>::') else [t['args'][1]]
            bad = []
            for o in offs:
                for r in B.op_origins(o):
                    if r[0] == 'call':
                        ct = B.term(r[1])
                        c = ct.get('callee') or ''
                        res = callee_of(ct) or ''
                        if c in CHAR_COUNT or res in CHAR_COUNT:
                            bad.append('%s at %s' % (res or c, B.loc(r[1])))
                        elif c == 'std::iter::Iterator::count' and 'Chars' in (ct.get('self_ty') or ''):
                            bad.append('chars().count() at %s' % B.loc(r[1]))
            base = describe_operand(B, t['args'][0])
            key = 'unit:%s|%s' % (name, base)
            rep.add('UNIT', key, 'string slice of `%s` in %s uses byte offsets' % (base, name), not bad, B.loc(i),
                    '' if not bad else '%s slices `%s` at an offset computed from a CHARACTER count (%s): wrong slice or panic on multi-byte text' % (
                        name, base, '; '.join(sorted(set(bad)))))
    # the converse confusion: a BYTE length used as a CHARACTER count on a chars() iterator
    BYTE_LEN = ('<str>::len', '<std::string::String>::len', '<str>::find', '<str>::rfind', '<std::ffi::OsStr>::len')
    for name in cg.names():
        B = cg.body(name)
        for i, t in B.calls():
            c = t.get('callee') or ''
            if c.split('::')[-1] not in ('skip', 'take', 'nth', 'nth_back', 'advance_by', 'step_by') or 'std::iter::' not in c:
                continue
            st = t.get('self_ty') or ''
            if 'std::str::Chars' not in st and 'std::str::CharIndices' not in st:
                continue
            n += 1
            bad = []
            for r in B.op_origins(t['args'][1]):
                if r[0] == 'call':
                    ct = B.term(r[1])
                    cc = ct.get('callee') or ''
                    if cc in BYTE_LEN:
                        bad.append('%s at %s' % (cc, B.loc(r[1])))
            base = describe_operand(B, t['args'][0])
            rep.add('UNIT', 'unit:%s|chars.%s' % (name, c.split('::')[-1]), 'character iterator `%s` in %s is advanced by a character count' % (base, name), not bad, B.loc(i),
                    '' if not bad else '%s advances a chars() iterator by a BYTE length (%s): for multi-byte text too many characters are consumed' % (name, '; '.join(sorted(set(bad)))))
    rep.floor('UNIT', 'string slicing sites', n, 5)
    return n


def arith(rep, F, cg, impl_self='sys::fs::memfs::file::MemfsFile'):
    """every potential panic site and every signed->unsigned conversion of a caller-controlled value in the handle type"""
    rep.rule('ARITH', 'in every method of MemfsFile each potential panic site (overflow Assert, slice Index, copy_from_slice ...) is discharged by a '
             'dominating ordering test on the same operands or excused by one table line whose structural side conditions still hold, and no '
             'signed value derived from a parameter is cast to an unsigned type without a dominating sign test')
    exc = _excuses()
    n = 0
    for name in cg.names():
        b = F.bodies[name]
        if b.get('impl_self') != impl_self:
            continue
        B = cg.body(name)
        for s in panic_sites(B):
            if s.kind == 'ptrcheck':
                continue
            n += 1
            t = B.term(s.bb)
            why = discharge(B, s, t)
            key = 'arith:' + s.key
            desc = 'potential panic `%s` in %s (a read/seek/write handle method)' % (s.desc, name)
            if why:
                o = rep.add('ARITH', key, desc, True, s.loc)
                o.witness = ['discharged: ' + why]
            elif s.key in exc and excuse_applies(B, exc[s.key])[1] is None:
                rep.excuse('ARITH', key, desc, excuse_applies(B, exc[s.key])[0], s.loc)
            else:
                prob = excuse_applies(B, exc[s.key])[1] if s.key in exc else None
                rep.add('ARITH', key, desc, False, s.loc,
                        '%s: `%s` can panic for some position / buffer / offset and nothing dominating rules it out%s' % (name, s.desc, ' (' + prob + ')' if prob else ''))
        for i, j, st in B.assigns():
            rv = st['rv']
            if rv['k'] == 'cast' and rv['cast'] == 'IntToInt' and rv['from'].startswith('i') and rv['to'].startswith('u'):
                n += 1
                roots = B.op_origins(rv['op'])
                from_param = any(r[0] == 'arg' for r in roots)
                d = describe_operand(B, rv['op'])
                ok = not from_param
                if from_param:
                    facts = known_facts(B, i)
                    for desc_, truth in facts:
                        if re.match(r'^(Ge|Gt|Lt|Le)\(', desc_) and ',0)' in desc_:
                            ok = True
                rep.add('ARITH', 'arith:%s|cast|%s' % (name, d), 'signed->unsigned cast of `%s` in %s is guarded by a sign test' % (d, name), ok, B.loc(i),
                        '' if ok else '%s casts the caller-controlled signed value `%s` to %s without a sign test: a negative offset wraps to a huge position' % (name, d, rv['to']))
    rep.floor('ARITH', 'handle arithmetic sites', n, 4)
