"""SITE-GUARD: in the core algorithm functions, every call of an effectful / algorithmic callee and every distinct return value is reached under
exactly the frozen branch facts (structural, name-free).  The frozen instances are those of the tree whose behaviour was confirmed."""
import re
from mir import callee_of, op_local
from panics import sdesc_operand
from errguard import structural_facts
import engine

TRIVIAL = re.compile(r'^(deref|deref_mut|as_ref|as_mut|borrow|borrow_mut|branch|from_residual|into|from|to_owned|clone|to_path_buf|to_string|new|'
                     r'into_iter|iter|iter_mut|as_slice|as_str|is_some|is_none|is_ok|is_err|unwrap|expect|ok|map|and_then|or|unwrap_or|len|is_empty|'
                     r'eq|ne|cmp|partial_cmp|lt|gt|le|ge|not|default|collect|peekable|chars|display|fmt|format|must_use|new_display|new_debug|'
                     r'box_assume_init_into_vec_unsafe|new_uninit|path|path_buf|alt|alt_buf|rel|rel_buf|mode|file_name|components|last|first)$')


def collect(F, cg, fns):
    res = {}
    for fn in fns:
        if fn not in F.bodies:
            continue
        B = cg.body(fn)
        for i, t in B.calls():
            c = (t.get('callee') or callee_of(t) or '')
            short = c.split('::')[-1]
            if TRIVIAL.match(short):
                continue
            facts = sorted({'%s=%s' % (d, v) for d, v in structural_facts(B, i) if v != 'Ok'})
            res.setdefault('%s|call %s' % (fn, short), []).append(facts)
        # distinct constant-like return values (None / Some / Ok / Err / true / false)
        for i, j, s in B.assigns():
            if s['place']['l'] == 0 and not s['place']['p']:
                rv = s['rv']
                v = None
                if rv['k'] == 'aggregate' and rv.get('variant') in ('None', 'Some', 'Ok', 'Err'):
                    v = rv['variant']
                elif rv['k'] == 'use' and rv['op']['k'] == 'const' and 'bool' in rv['op']:
                    v = str(rv['op']['bool']).lower()
                if v is None:
                    continue
                facts = sorted({'%s=%s' % (d, vv) for d, vv in structural_facts(B, i) if vv != 'Ok'})
                if v == 'Err' and any(f.endswith('=Err') for f in facts):
                    continue        # an explicit `Err(e) => return Err(..)` arm is the long form of `?` (whose exit is from_residual, not a literal)
                res.setdefault('%s|return %s' % (fn, v), []).append(facts)
    for k in res:
        res[k] = sorted(res[k])
    return res


def site_guard(rep, F, cg, table, fns, rule='SITE-GUARD'):
    rep.rule(rule, 'in the listed core functions every call of a non-trivial callee and every literal-kind return (None / Some / Ok / Err / bool) is reached under '
             'exactly the branch facts frozen in tables/site_guards.json (structural descriptions of the dominating bool / enum tests and their outcomes): the '
             'branching skeleton of the algorithm agrees with the confirmed instance')
    cur = collect(F, cg, fns)
    n = 0
    missing_fn = [f for f in fns if f not in F.bodies]
    for f in missing_fn:
        rep.add(rule, 'siteguard:%s:anchor' % f, '%s exists' % f, False, detail='core function %s not found (renamed?)' % f)
    keys = {k for k in set(table) | set(cur) if k.split('|')[0] in fns}
    for key in sorted(keys):
        n += 1
        want, got = table.get(key), cur.get(key)
        short = key.replace('sys::fs::', '')
        if want is None:
            rep.add(rule, 'siteguard:%s' % key, 'site %s is a frozen site' % short, False, '', 'new site %s under %s (not in the frozen skeleton)' % (short, got))
        elif got is None:
            rep.add(rule, 'siteguard:%s' % key, 'site %s still exists' % short, False, '', 'site %s (frozen guards %s) no longer exists' % (short, want))
        else:
            ok = want == got
            rep.add(rule, 'siteguard:%s' % key, 'site %s is reached under its frozen branch facts' % short, ok, '',
                    '' if ok else 'site %s is now reached under %s; frozen: %s' % (short, got, want))
    rep.floor(rule, 'guarded sites', n, max(3, len(fns)))
