"""SITE-GUARD: in the core algorithm functions, every call of an effectful / algorithmic callee and every distinct return value is reached under
exactly the frozen branch facts (structural, name-free).  The frozen instances are those of the tree whose behaviour was confirmed."""
import re
from mir import callee_of, op_local
from panics import sdesc_operand, sdesc_place, sdesc_rv, skey_call
from errguard import structural_facts as _definite_facts, disjunctive_facts, canon_fact


_CTX = {'F': None, 'cg': None, 'depth': 0}


def _ok_facts_of_helper(F, cg, fn):
    """facts that hold on every `Ok(..)` return of fn (intersection over its Ok returns)"""
    B = cg.body(fn)
    sets = []
    for i, j, st in B.assigns():
        if st['place']['l'] == 0 and not st['place']['p'] and st['rv']['k'] == 'aggregate' and st['rv'].get('variant') == 'Ok':
            sets.append({(d, v) for d, v in structural_facts(B, i)})
    for i, t in B.calls():
        if t['dest']['l'] == 0 and not t['dest']['p'] and (callee_of(t) or '').split('::')[-1] != 'from_residual':
            return set()          # returns some callee's Result unchanged: nothing known
    return set.intersection(*sets) if sets else set()


def imported_facts(B, bb):
    """a validation moved into a helper that did not exist in the confirmed tree still guards what follows `helper(..)?`: the facts that hold on every Ok return
    of the helper (its parameters replaced by the actual arguments) are facts of the sites dominated by the Continue edge"""
    F, cg = _CTX['F'], _CTX['cg']
    if F is None or _CTX['depth'] > 1:
        return []
    out = []
    for d in sorted(B.dom[bb]):
        if d == bb:
            continue
        t = B.term(d)
        if t['k'] != 'switch' or t['discr']['k'] not in ('copy', 'move'):
            continue
        dl = op_local(t['discr'])
        src = None
        for st in B.blocks[d]['stmts']:
            if st['k'] == 'assign' and st['place']['l'] == dl and st['rv']['k'] == 'discr':
                src = st['rv']['place']
        if src is None or src['p']:
            continue
        ds = B.whole_defs(src['l'])
        if len(ds) != 1 or ds[0][0] != 'call' or not (callee_of(ds[0][3]) or '').endswith('Try>::branch'):
            continue
        cont = [tb for v, tb in t['targets'] if v == '0']
        if (callee_of(ds[0][3]) or '').startswith('<std::option::Option<T> as std::ops::Try>'):
            # `x?` on an Option: past it x was Some, on its early-exit arm x was None (what `if let Some(v) = x { .. } else { return None }` establishes)
            brk = [tb for v, tb in t['targets'] if v == '1']
            xd = sdesc_operand(B, ds[0][3]['args'][0])
            if cont and B.dominates(cont[0], bb) and B.preds[cont[0]] == [d]:
                out.append((xd, 'Some'))
            elif brk and B.dominates(brk[0], bb) and B.preds[brk[0]] == [d]:
                out.append((xd, 'None'))
            continue
        if not cont or not B.dominates(cont[0], bb) or B.preds[cont[0]] != [d]:
            continue
        al = op_local(ds[0][3]['args'][0])
        ads = B.whole_defs(al) if al is not None else []
        if len(ads) != 1 or ads[0][0] != 'call':
            continue
        ht = ads[0][3]
        c = ht.get('resolved') or ht.get('callee') or callee_of(ht) or ''
        if (ht.get('callee') or '') in COMB and COMB[ht.get('callee')][0] == 'None' and ht['args']:
            out.append((sdesc_operand(B, ht['args'][0]), 'Some'))          # past `x.ok_or_else(..)?` x was Some, as past the Some arm of a match on x
            continue
        if not inline.is_new_helper(F, c):
            continue
        amap = {k + 1: sdesc_operand(B, a) for k, a in enumerate(ht['args'])}
        _CTX['depth'] += 1
        try:
            for dsc, v in _ok_facts_of_helper(F, cg, c):
                out.append((inline.subst(dsc, amap), v))
        finally:
            _CTX['depth'] -= 1
    return out


def _prune_implied(facts):
    """drop comparison facts that follow from another one on the same operands: a < b gives !(b < a) and a != b; a == b gives !(a < b) and !(b < a)"""
    have = {(d, v) for d, v in facts}
    drop = set()
    for d, v in facts:
        m = re.match(r'^(Lt|Eq|lt|eq)\((.*)\)$', d)
        if not m or v is not True:
            continue
        from errguard import _split2
        ab = _split2(m.group(2))
        if not ab:
            continue
        a, b = ab
        lt, eq = ('Lt', 'Eq') if m.group(1)[0].isupper() else ('lt', 'eq')
        if m.group(1) in ('Lt', 'lt'):
            drop |= {('%s(%s,%s)' % (lt, b, a), False), ('%s(%s,%s)' % (eq, a, b), False), ('%s(%s,%s)' % (eq, b, a), False)}
        else:
            drop |= {('%s(%s,%s)' % (lt, a, b), False), ('%s(%s,%s)' % (lt, b, a), False)}
    return [f for f in facts if (f[0], f[1]) not in drop or (f[0], f[1]) not in have]


def structural_facts(B, bb):
    """dominance facts, the `a || b` alternatives on the way to bb, and the facts imported from new validation helpers"""
    return _prune_implied(_definite_facts(B, bb) + disjunctive_facts(B, bb) + imported_facts(B, bb))
import engine, inline

TRIVIAL = re.compile(r'^(deref|deref_mut|as_ref|as_mut|borrow|borrow_mut|branch|from_residual|into|from|to_owned|clone|to_path_buf|to_string|new|'
                     r'into_iter|iter|iter_mut|as_slice|as_str|is_some|is_none|is_ok|is_err|unwrap|expect|unwrap_err|expect_err|ok|map|and_then|or|unwrap_or|len|is_empty|'
                     r'eq|ne|cmp|partial_cmp|lt|gt|le|ge|not|default|collect|peekable|chars|display|fmt|format|must_use|new_display|new_debug|'
                     r'box_assume_init_into_vec_unsafe|new_uninit|path|path_buf|alt|alt_buf|rel|rel_buf|mode|file_name|components|last|first)$')


class BodyOnly:
    """the slice of the call-graph interface SITE-GUARD needs, for a fact file without a call graph (the macro harness)"""
    def __init__(self, F):
        self.F, self._c = F, {}

    def body(self, n):
        if n not in self._c:
            from mir import Body
            self._c[n] = Body(self.F.bodies[n])
        return self._c[n]


def errguard_io(c):
    from errguard import IO_CALL
    return bool(IO_CALL.match(c))


def pure_query(B, t):
    """an infallible read-only question (bool / Option / reference result, no &mut argument): when it is evaluated does not matter, its answer is a branch fact
    of the sites it guards"""
    dt = B.local_ty(t['dest']['l']) if not t['dest']['p'] else ''
    if not dt or dt in ('()', '!') or dt.startswith('std::result::Result') or dt.startswith('std::ops::ControlFlow'):
        return False
    if not (dt == 'bool' or dt.startswith('std::option::Option<&') or dt.startswith('&') and not dt.startswith('&mut')):
        return False
    for a in t['args']:
        l = op_local(a)
        if l is not None and B.local_ty(l).startswith('&mut'):
            return False
    if t.get('callable_args') or 'closure' in str(t.get('callee')):
        return False
    return True


def _rv_desc(B, rv):
    if rv['k'] == 'aggregate' and rv.get('agg') == 'adt' and rv.get('fields'):
        return '%s{%s}' % (rv.get('variant') or '', ','.join('%s:%s' % (f, sdesc_operand(B, o, 1)) for f, o in zip(rv['fields'], rv['ops'])))
    return sdesc_rv(B, rv)


def _is_try_payload(B, op):
    """op is (a plain copy of) the value a `?` produced — no call, not even a conversion, in between"""
    l = op_local(op)
    for _ in range(5):
        if l is None:
            return False
        ds = B.whole_defs(l)
        if len(ds) != 1 or ds[0][0] != 'assign' or ds[0][4]['k'] != 'use' or ds[0][4]['op']['k'] not in ('copy', 'move'):
            return False
        pl = ds[0][4]['op']['place']
        if pl['p']:
            return len(pl['p']) == 2 and pl['p'][0]['k'] == 'downcast' and pl['p'][0].get('variant') == 'Continue' and pl['p'][1]['k'] == 'field'
        l = pl['l']
    return False


def _balanced(x):
    """x is one complete call expression `name(...)` (so that `x?` is the payload of that whole call)"""
    if not x.endswith(')'):
        return False
    d = 0
    for k, ch in enumerate(x):
        d += ch in '([{<'
        d -= ch in ')]}>'
        if d == 0 and ch == ')' and k != len(x) - 1:
            return False
    return d == 0 and re.match(r'^[A-Za-z_][A-Za-z0-9_]*\(', x) is not None


def returns_of(F, cg, fn, amap=None, prefix=(), depth=0):
    """(kind, facts) of every literal-kind return of fn; a tail call of a helper that did not exist in the confirmed tree returns what the helper returns"""
    B = cg.body(fn)
    out = []
    for i, j, s in B.assigns():
        if s['place']['l'] == 0 and not s['place']['p']:
            rv = s['rv']
            v = None
            if rv['k'] == 'aggregate' and rv.get('variant') in ('None', 'Some', 'Ok'):      # Err exits are the error-constructor call sites
                v = rv['variant']
            elif rv['k'] == 'use' and rv['op']['k'] == 'const' and 'bool' in rv['op']:
                v = str(rv['op']['bool']).lower()
            sf = structural_facts(B, i)
            if v is None and rv['k'] == 'use' and rv['op']['k'] in ('copy', 'move'):
                # `return x` where a dominating test fixed x's variant is the same exit as returning that variant literally
                d0 = sdesc_operand(B, rv['op'])
                vs = [vv for d, vv in sf if d == d0 and vv in ('Some', 'None', 'Ok')]
                if len(vs) == 1:
                    v = vs[0]
            if v is None:
                if rv['k'] == 'aggregate' and rv.get('variant') == 'Err':
                    continue          # an explicit Err(..) exit is the long form of `?`; error exits are the error-constructor call sites
                # a computed result: what is returned (structurally) is part of the skeleton too
                v = 'value ' + inline.subst(_rv_desc(B, rv), amap)
            out.append((v, sorted(set(prefix) | inline.fact_strings(sf, canon_fact, amap))))
    for i, t in B.calls():
        if t['dest']['l'] == 0 and not t['dest']['p']:
            c = t.get('resolved') or t.get('callee') or callee_of(t) or ''
            if (t.get('callee') or '') in COMB and COMB[t.get('callee')][0] in ('None', 'Err') and c.split('::')[-1] in ('ok_or_else', 'map_err'):
                # tail `x.ok_or_else(|| e)` is `match x { Some(v) => Ok(v), None => Err(e) }`; tail `r.map_err(f)` is `match r { Ok(v) => Ok(v), Err(e) => Err(f(e)) }`
                here = set(prefix) | inline.fact_strings(structural_facts(B, i), canon_fact, amap)
                if c.split('::')[-1] == 'ok_or_else':
                    here.add('%s=Some' % inline.subst(sdesc_operand(B, t['args'][0]), amap))
                out.append(('Ok', sorted(here)))
                continue
            if (t.get('callee') or '') in ('<std::option::Option<T>>::map', '<std::result::Result<T, E>>::map'):
                # tail `x.map(f)`: Some(f(v)) when x is Some, None when x is None (Result: Ok(f(v)) / the Err passed through)
                here = set(prefix) | inline.fact_strings(structural_facts(B, i), canon_fact, amap)
                r = inline.subst(sdesc_operand(B, t['args'][0]), amap)
                if 'Option' in t.get('callee'):
                    out.append(('Some', sorted(here | {'%s=Some' % r})))
                    out.append(('None', sorted(here | {'%s=None' % r})))
                else:
                    out.append(('Ok', sorted(here)))
                continue
            if c.split('::')[-1] == 'from_residual' and (callee_of(t) or '').startswith('<std::option::Option<T> as std::ops::FromResidual'):
                out.append(('None', sorted(set(prefix) | inline.fact_strings(structural_facts(B, i), canon_fact, amap))))          # `x?` on an Option returns None
                continue
            if c.split('::')[-1] == 'from_residual':
                continue          # the error arm of `?` (whether it is reachable at all depends on the callee: NeverErr pruning)
            if not (depth < 3 and c != fn and inline.is_new_helper(F, c)):
                here = sorted(set(prefix) | inline.fact_strings(structural_facts(B, i), canon_fact, amap))
                if B.local_ty(0).startswith('std::result::Result'):
                    # a tail call returning the function's own Result: `f()`, `let v = f()?; Ok(v)` and `match f() { Ok(v) => Ok(v), Err(e) => Err(e.into()) }` are one exit
                    out.append(('Ok', here))
                elif c.split('::')[-1] in ('from', 'into', 'to_owned', 'to_path_buf', 'clone', 'as_ref', 'borrow') and len(t['args']) == 1:
                    out.append(('value ' + inline.subst(sdesc_operand(B, t['args'][0]), amap), here))          # PathBuf::from(x) / x.into() are x
                else:
                    out.append(('value ' + inline.subst(skey_call(B, t), amap), here))
    if depth < 3:
        for i, t in B.calls():
            if t['dest']['l'] == 0 and not t['dest']['p']:
                c = t.get('resolved') or t.get('callee') or callee_of(t) or ''
                if c != fn and inline.is_new_helper(F, c):
                    here = sorted(set(prefix) | inline.fact_strings(structural_facts(B, i), canon_fact, amap))
                    sub = {k + 1: inline.subst(sdesc_operand(B, a), amap) for k, a in enumerate(t['args'])}
                    out += returns_of(F, cg, c, sub, here, depth + 1)
    return out


def collect(F, cg, fns):
    import panics
    panics.PHI = True
    panics.HELPER_RESULT = _helper_result
    _CTX['F'], _CTX['cg'] = F, cg
    try:
        return _collect(F, cg, fns)
    finally:
        panics.PHI = False
        panics.HELPER_RESULT = None
        _CTX['F'] = _CTX['cg'] = None


_HR = {'depth': 0}


def _helper_result(t, argdescs):
    """the value a straight-line helper that did not exist in the confirmed tree returns, with its parameters replaced by the actual arguments: a pure expression
    moved into a new function is still that expression"""
    F, cg = _CTX['F'], _CTX['cg']
    if F is None or _HR['depth'] > 1:
        return None
    c = t.get('resolved') or t.get('callee') or callee_of(t) or ''
    if not inline.is_new_helper(F, c):
        return None
    _HR['depth'] += 1
    try:
        rs = returns_of(F, cg, c)
    finally:
        _HR['depth'] -= 1
    if len(rs) != 1 or rs[0][1] or not rs[0][0].startswith('value '):
        return None
    B = cg.body(c)
    # only helpers without effects of their own
    for i, tt in B.calls():
        cc = (tt.get('callee') or callee_of(tt) or '')
        if any((op_local(a) is not None and B.local_ty(op_local(a)).startswith('&mut')) for a in tt['args']) or errguard_io(cc):
            return None
    return inline.subst(rs[0][0][6:], {k + 1: d for k, d in enumerate(argdescs)})


# error-side combinators that take a closure: the closure body is the `None` / `Err` arm of the equivalent match
COMB = {
    '<std::option::Option<T>>::ok_or_else': ('None', None),
    '<std::option::Option<T>>::unwrap_or_else': ('None', None),
    '<std::result::Result<T, E>>::map_err': ('Err', ' as Err.0'),
    '<std::result::Result<T, E>>::unwrap_or_else': ('Err', ' as Err.0'),
    '<std::result::Result<T, E>>::or_else': ('Err', ' as Err.0'),
    # value-side combinators: the closure is the Some / Ok arm
    '<std::option::Option<T>>::map': ('Some', ' as Some.0'),
    '<std::option::Option<T>>::and_then': ('Some', ' as Some.0'),
    '<std::result::Result<T, E>>::map': ('Ok', '?'),
    '<std::result::Result<T, E>>::and_then': ('Ok', '?'),
}
_UPV = re.compile(r'upvar#(\d+)')


def comb_closures(F):
    """closure bodies that are only the error arm of such a combinator (they are described inside the function that calls the combinator)"""
    out = set()
    for n, b in F.bodies.items():
        for blk in b['blocks']:
            t = blk['term']
            if t['k'] == 'call' and (t.get('callee') or '') in COMB:
                for c in t.get('callable_args') or []:
                    out.add(c)
    return out


def _closure_operands(B, t):
    """structural descriptions of the operands captured by the closure handed to call t (in capture order)"""
    for a in t['args'][1:]:
        l = op_local(a)
        if l is None:
            continue
        for d in B.whole_defs(l):
            if d[0] == 'assign' and d[4]['k'] == 'aggregate' and d[4].get('agg') == 'closure':
                return [sdesc_operand(B, o) for o in d[4]['ops']]
    return []


def _sub_closure(s, ups, amap):
    s = _UPV.sub(lambda m: ups[int(m.group(1))] if int(m.group(1)) < len(ups) else m.group(0), s)
    return inline.subst(s, amap)


def comb_sites(F, cg, B, i, t, facts, _depth=0):
    """call sites of the closure given to an error-side combinator, as if they stood in the None / Err arm of a match on the receiver"""
    c = t.get('callee') or ''
    variant, payload = COMB[c]
    recv = sdesc_operand(B, t['args'][0])
    ups = _closure_operands(B, t)
    pre = sorted(set(facts) | ({'%s=%s' % (recv, variant)} if variant != 'Ok' else set()))          # (`x is Ok` is never recorded: it is implied)
    out = []
    for cname in t.get('callable_args') or []:
        if cname not in F.bodies:
            continue
        CB = cg.body(cname)
        amap = {2: recv + payload} if payload else {}
        for ci, ct in CB.calls():
            cfacts = sorted(set(pre) | {_sub_closure(f, ups, amap) for f in inline.fact_strings(structural_facts(CB, ci), canon_fact)})
            if (ct.get('callee') or '') in COMB and ct.get('callable_args') and _depth < 2:
                # a combinator inside the closure: its closure is described one level further in
                for CB2, ci2, ct2, cf2, ups2, amap2 in comb_sites(F, cg, CB, ci, ct, cfacts, _depth + 1):
                    # the inner closure's captures / parameter are expressed in the outer closure's terms first, then in the caller's
                    out.append((CB2, ci2, ct2, [_sub_closure(f, ups, amap) for f in cf2], [_sub_closure(u, ups, amap) for u in ups2],
                                {k: _sub_closure(v, ups, amap) for k, v in amap2.items()}))
                continue
            out.append((CB, ci, ct, cfacts, ups, amap))
    return out


def rewrite_comb(s):
    """`ok_or_else(R,closure)?` is the payload of R when it is Some; `map_err(R,closure)?` is `R?`; `R.map(f)` is Some / Ok exactly when R is"""
    m = re.match(r'^map\((.*),closure\)=(Some|None|Ok|Err)$', s)
    if m:
        from errguard import _split2
        if _split2(m.group(1)) is None:
            s = '%s=%s' % (m.group(1), m.group(2))
    for name, repl in (('ok_or_else(', '%s as Some.0'), ('ok_or(', '%s as Some.0'), ('map_err(', '%s?')):
        start = 0
        while True:
            k = s.find(name, start)
            if k < 0:
                break
            if k > 0 and (s[k - 1].isalnum() or s[k - 1] == '_'):
                start = k + 1
                continue
            j, depth_ = k + len(name), 1
            while j < len(s) and depth_:
                depth_ += s[j] in '([{<'
                depth_ -= s[j] in ')]}>'
                j += 1
            if depth_ == 0 and j < len(s) and s[j] == '?':
                from errguard import _split2
                ab = _split2(s[k + len(name):j - 1])
                first = ab[0] if ab else s[k + len(name):j - 1]
                s = s[:k] + (repl % first) + s[j + 1:]
                start = k
            else:
                start = k + 1
    return s


def walk_bodies(F, cg, fn, amap=None, prefix=(), depth=0, seen=()):
    """fn's body and, recursively, the bodies of the helpers it calls that did not exist in the confirmed tree (with the argument substitution and the facts at the call)"""
    B = cg.body(fn)
    yield B, amap, tuple(prefix)
    if depth >= 3:
        return
    for i, t in B.calls():
        c = t.get('resolved') or t.get('callee') or callee_of(t) or ''
        if c != fn and c not in seen and inline.is_new_helper(F, c):
            here = sorted(set(prefix) | inline.fact_strings(structural_facts(B, i), canon_fact, amap))
            sub = {k + 1: inline.subst(sdesc_operand(B, a), amap) for k, a in enumerate(t['args'])}
            for x in walk_bodies(F, cg, c, sub, here, depth + 1, tuple(seen) + (fn,)):
                yield x


def _collect(F, cg, fns):
    res = {}
    skip = comb_closures(F)
    for fn in fns:
        if fn not in F.bodies or fn in skip:
            continue
        seen_pure = {}
        stream = []
        for _B, i, t, facts, _inl in inline.walk_calls(F, cg, fn, structural_facts, canon_fact):
            if (t.get('callee') or '') in COMB and t.get('callable_args'):
                # `x.ok_or_else(|| e)` / `r.map_err(|e| f(e))`: the closure is the None / Err arm of the equivalent match, described here
                for CB, ci, ct, cfacts, ups, camap in comb_sites(F, cg, _B, i, t, [inline.subst(f, _inl) for f in facts]):
                    stream.append((CB, ci, ct, cfacts, _inl, (ups, camap)))
                continue
            stream.append((_B, i, t, facts, _inl, None))
        for _B, i, t, facts, _inl, clo in stream:
            facts = sorted(set(facts))
            c = (t.get('callee') or callee_of(t) or '')
            short = c.split('::')[-1]
            if c.startswith('<std::io::Error>::'):
                short = 'io::Error::' + short          # an error exit, not a plain constructor
            elif TRIVIAL.match(short) or pure_query(_B, t):
                continue
            # the operands handed to the callee (structurally described; parameters of an inlined helper replaced by the actual arguments)
            full = '%s(%s)' % (short, ','.join(sdesc_operand(_B, a) for a in t['args']))
            if clo:
                full = _sub_closure(full, clo[0], clo[1])
            full = rewrite_comb(inline.subst(full, _inl))
            mut = any((op_local(a) is not None and _B.local_ty(op_local(a)).startswith('&mut')) for a in t['args'])
            if not mut and not errguard_io(c) and not c.startswith(('<std::io::Error>::', '<errors::')) and short not in ('read_guard', 'write_guard'):
                # a read-only (possibly fallible) computation repeated with the same operands: only its first evaluation is part of the skeleton, so that
                # hoisting it into a `let` (or evaluating it again later) changes nothing
                prev = seen_pure.setdefault((id(_B), full), [])
                if any(_B.dominates(p, i) for p in prev):
                    continue
                prev.append(i)
            res.setdefault('%s|call %s' % (fn, short), []).append(facts)
            res.setdefault('%s|args %s' % (fn, short), []).append([full])
        B = cg.body(fn)
        for _B, amap, prefix in walk_bodies(F, cg, fn):
            for i, j, st in _B.assigns():
                pl, rv = st['place'], st['rv']
                # stores through a reference (self.pos = .., file.data = .., entry.mode = ..): what is stored, where, under which facts
                if pl['p'] and any(e['k'] == 'field' for e in pl['p']) and (pl['p'][0]['k'] == 'deref' or 1 <= pl['l'] <= _B.nargs):          # also `mut self` builders
                    facts = sorted(set(prefix) | inline.fact_strings(structural_facts(_B, i), canon_fact, amap))
                    res.setdefault('%s|store %s' % (fn, inline.subst(sdesc_place(_B, pl), amap)), []).append([inline.subst(_rv_desc(_B, rv), amap)] + facts)
                # struct literals of the crate's own types: the value of every field
                elif rv['k'] == 'aggregate' and rv.get('agg') == 'adt' and rv.get('fields') and len(rv['ops']) > 1 and not str(rv.get('adt', '')).startswith(('std::', 'core::', 'alloc::')):
                    res.setdefault('%s|build %s' % (fn, str(rv.get('adt', '')).split('::')[-1]), []).append([inline.subst(_rv_desc(_B, rv), amap)])
        is_bool = B.local_ty(0) == 'bool'
        for v, facts in returns_of(F, cg, fn):
            if is_bool:
                # a predicate is described by its truth conditions: the fact sets under which it returns true (`return false` is the complement); a computed
                # result `e` under F is `true` under F + [e] — so `match x { Some(v) => p(v), None => false }` and `matches!(x, Some(v) if p(v))` agree
                if v == 'false':
                    continue
                if v.startswith('value '):
                    d, tv = canon_fact(v[6:], True)
                    while d.startswith('Not(') and d.endswith(')'):
                        d, tv = canon_fact(d[4:-1], not tv) if isinstance(tv, bool) else (d, tv)
                    facts = sorted(set(facts) | {'%s=%s' % (d, tv)})
                res.setdefault('%s|return true' % fn, []).append(facts)
            elif v == 'None':
                continue          # for an Option-returning function `None` is the complement of its Some returns (as `false` is for a predicate)
            elif v.startswith('value '):
                res.setdefault('%s|result' % fn, []).append([v[6:]] + facts)
            else:
                res.setdefault('%s|return %s' % (fn, v), []).append(facts)
        # order of the effects: which mutating / OS-level call or destructor of a crate type is executed before which (dominance between their blocks)
        eff = []
        for i, t in B.calls():
            c = (t.get('callee') or callee_of(t) or '')
            short = c.split('::')[-1]
            if TRIVIAL.match(short) and not c.startswith('<std::io::Error>::'):
                continue
            mut = any((op_local(a) is not None and B.local_ty(op_local(a)).startswith('&mut')) for a in t['args'])
            if mut and not short.startswith(('next', 'fmt', 'write_fmt', 'write_str', 'push_str')) or errguard_io(c) or short in ('read_guard', 'write_guard', 'sync'):
                eff.append((i, '%s(%s)' % (short, sdesc_operand(B, t['args'][0], 2) if t['args'] else '')))
        for i in B.normal:
            t = B.term(i)
            if t['k'] == 'drop' and re.search(r'(sys::fs::memfs::|core::defer::)', t.get('ty', '')) and not t['place']['p']:
                eff.append((i, 'drop<%s>' % re.sub(r"<.*$", '', t['ty'].split('::')[-1])))
        pairs = set()
        for a, la in eff:
            for b, lb in eff:
                if a != b and la != lb and B.dominates(a, b):
                    pairs.add('%s < %s' % (la, lb))
        if pairs:
            res['%s|order' % fn] = [sorted(pairs)]
    out = {}
    for k, v in res.items():
        k2 = rewrite_comb(k)
        out.setdefault(k2, []).extend([[rewrite_comb(x) for x in inst] for inst in v])
    for k in out:
        out[k] = sorted(out[k])
    return out


M_ = '<sys::fs::memfs::vfs::Memfs>::'
MV = '<sys::fs::memfs::vfs::Memfs as sys::fs::vfs::VirtualFileSystem>::'
SD = '<sys::fs::stdfs::Stdfs>::'
MEMFS_ALL = ('<sys::fs::memfs::',)
FILE_IO = ('read', 'read_all', 'read_lines', 'write', 'write_all', 'write_lines', 'append', 'append_all', 'append_line', 'append_lines', '_clone_file', '_copy', 'mkfile', 'mkfile_m')
LINK = ('readlink', 'readlink_abs', 'is_symlink', 'is_symlink_dir', 'is_symlink_file', 'is_file', 'is_dir', 'symlink', '_symlink', 'follow', 'link_to', 'from', 'entry', 'remove',
        'remove_all', '_chmod', '_chown', 'chmod', 'chown', 'chmod_b', 'chown_b')          # remove / chmod / chown act on the link itself
PERM = ('_chmod', '_chown', 'chmod', 'chown', 'chmod_b', 'chown_b', 'set_mode', 'mode', 'is_exec', 'is_readonly', 'uid', 'gid', 'owner', 'mkdir_m', 'mkfile_m', '_mkdir_m')
LIST = ('paths', 'dirs', 'files', 'all_paths', 'all_dirs', 'all_files', 'entries', '_entries', '_clone_entries', 'entry_iter')


def _item(n):
    return n.split('::')[-1]


def _backend(n):
    return n.startswith((M_, MV, SD))


# which functions' branching skeleton each property freezes (by root function; closures follow their root)
GROUP_PRED = {
    'C01': lambda n: (n.startswith(MEMFS_ALL) and not n.startswith('<sys::fs::memfs::file::')) or n.startswith('<errors::'),
    'C02': lambda n: (n.startswith(('<sys::fs::stdfs::',)) and ' as sys::fs::vfs::VirtualFileSystem>' not in n) or n.startswith('<errors::')
    or (n.startswith(MEMFS_ALL) and not n.startswith('<sys::fs::memfs::file::')),
    'C13': lambda n: n.startswith(('<sys::fs::vfs::Vfs>::', '<sys::fs::vfs::Vfs as std::', '<sys::fs::entry::VfsEntry as std::')),
    'C03': lambda n: n.startswith((M_, MV, '<sys::fs::memfs::vfs::MemfsGuard', '<sys::fs::memfs::vfs::MemfsInner', '<sys::fs::memfs::entry::MemfsEntry>')),
    'C04': lambda n: n.startswith(MEMFS_ALL),
    'C05': lambda n: n in ('<sys::fs::memfs::vfs::Memfs>::_abs', '<sys::fs::stdfs::Stdfs>::abs', MV + 'abs'),
    'C06': lambda n: _backend(n) and _item(n) in FILE_IO,
    'C07': lambda n: n.startswith('<sys::fs::memfs::file::MemfsFile'),
    'C08': lambda n: n.startswith(('<sys::fs::entries::', '<sys::fs::entry_iter::', '<sys::fs::memfs::entry::MemfsEntryIter')) or (_backend(n) and _item(n) in LIST),
    'C09': lambda n: (_backend(n) and _item(n) in ('_copy', 'copy', 'copy_b', 'move_p')) or n.startswith('<sys::fs::copy::'),
    'C10': lambda n: (n.startswith(('<sys::fs::memfs::', '<sys::fs::stdfs::')) and _item(n) in LINK and ' as sys::fs::vfs::VirtualFileSystem>' not in n.replace(MV, ''))
    or n.startswith('sys::fs::entry::Entry::'),
    'C11': lambda n: (n.startswith(('<sys::fs::memfs::', '<sys::fs::stdfs::')) and _item(n) in PERM and ' as sys::fs::vfs::VirtualFileSystem>' not in n.replace(MV, ''))
    or n.startswith(('sys::fs::chmod::', '<sys::fs::chmod::', 'sys::fs::chown::', '<sys::fs::chown::')),
    'C12': lambda n: n.startswith(MEMFS_ALL) or n in ('<T as core::iter::IteratorExt>::drop', '<T as core::iter::IteratorExt>::slice', 'sys::fs::path::clean',
                                                      'sys::fs::path::relative', 'sys::fs::path::trim_protocol'),
    'C15': lambda n: n.startswith('sys::fs::path::') and _item(n) not in ('expand', 'home_dir'),
    'C17': lambda n: n in ('sys::fs::path::expand', 'sys::fs::path::home_dir'),
    'C18': lambda n: n.startswith(('sys::user::', '<sys::user::User')) or (_backend(n) and _item(n) == 'config_dir'),
    'C19': lambda n: n.startswith(('<str as core::', '<std::string::String as core::', '<T as core::iter::', '<std::option::Option<T> as core::', '<std::iter::Peekable<I> as core::',
                                   '<core::peekable::', '<core::defer::', 'core::defer::', '<std::path::Component', '<std::ffi::OsStr as core', '<std::path::Path as core::')),
}


def group_functions(F, pid, cg=None):
    """the functions a property's skeleton covers: those selected by GROUP_PRED plus (with a call graph) every crate function they can reach — the
    property's dependency cone — and the closures of all of them"""
    pred = GROUP_PRED[pid]
    out = set()
    for n, b in F.bodies.items():
        root = b.get('root') if b['kind'] == 'Closure' else n
        if root and pred(root) and b['kind'] != 'Promoted':
            out.add(n)
    if cg is not None:
        work = list(out)
        while work:
            x = work.pop()
            if x not in F.bodies:
                continue
            for e in cg.edges(x):
                t = e.target
                if t in F.bodies and t not in out and F.bodies[t]['kind'] != 'Promoted' and not t.startswith(('<testing::', 'testing::')):
                    out.add(t)
                    work.append(t)
        for n, b in F.bodies.items():
            if b['kind'] == 'Closure' and b.get('root') in out:
                out.add(n)
    return sorted(out)


def site_guard(rep, F, cg, table, fns, rule='SITE-GUARD'):
    rep.rule(rule, 'in the listed functions every call of an effectful or fallible callee and every literal-kind return (None / Some / Ok / bool) is reached under '
             'exactly the branch facts frozen in tables/site_guards.json (structural descriptions of the dominating bool / enum tests and their outcomes): the '
             'branching skeleton of the algorithm agrees with the confirmed instance (one obligation per function; differing sites are listed)')
    if hasattr(cg, 'prune_never_err'):
        cg = type(cg)(F)          # the skeleton is always taken from unpruned control-flow graphs (as at freeze time), whatever earlier rules pruned
    fns = list(fns)
    have = set(fns)
    # closures that appeared inside a frozen function belong to it
    for n, b in F.bodies.items():
        if b['kind'] == 'Closure' and b.get('root') in have and n not in have:
            fns.append(n)
    cur = collect(F, cg, fns)
    n = 0
    byfn = {}
    for key in {k for k in set(table) | set(cur) if k != '_groups' and k.split('|')[0] in set(fns)}:
        byfn.setdefault(key.split('|')[0], []).append(key)
    for f in sorted(set(fns)):
        b = F.bodies.get(f)
        if b is None:
            if '{closure' in f:
                if not byfn.get(f):
                    continue
            else:
                rep.add(rule, 'siteguard:%s:anchor' % f, '%s exists' % f, False, detail='function %s not found (removed, or renamed together with a signature change)' % f)
                continue
        diffs = []
        for key in sorted(byfn.get(f, [])):
            n += 1
            want, got = table.get(key), cur.get(key)
            site = key.split('|', 1)[1]
            if site == 'order' and (want is None or got is None):
                continue
            if want is None:
                diffs.append('new site `%s` under %s' % (site, got))
            elif got is None:
                diffs.append('site `%s` (frozen guards %s) no longer exists' % (site, want))
            elif site == 'order':
                # only inversions count: extraction, merging of exits or a new effect never turn `A before B` into `B before A`, swapping two statements does
                def rev(p):
                    return ' < '.join(reversed(p.split(' < ', 1)))
                cur_pairs = set(got[0]) if got else set()
                old_pairs = set(want[0]) if want else set()
                # labels that occur at several sites give both directions in one tree: only pairs that are one-directional in both trees are compared
                inv = sorted(p for p in old_pairs if rev(p) not in old_pairs and rev(p) in cur_pairs and p not in cur_pairs)
                if inv:
                    diffs.insert(0, 'effects now run in the opposite order: frozen %s' % inv[:4])
            elif want != got:
                diffs.append('site `%s` is now reached under %s; frozen: %s' % (site, got, want))
        ti = b.get('trait_item') if b else None
        if diffs and ti:
            mine = {k.split('|', 1)[1]: cur[k] for k in byfn.get(f, []) if k in cur}
            it = ti.split('::')[-1]
            if set(mine) <= {'call %s' % it, 'args %s' % it, 'result'} and mine.get('call %s' % it) == [[]]:
                diffs = []          # became a plain forwarder to a sibling implementation of the same trait method (frozen itself)
        short = f.replace('sys::fs::', '')
        where = '%s:%d' % (b['_file'], b['_line']) if b else ''
        rep.add(rule, 'siteguard:%s' % f, 'every site of %s is reached under its frozen branch facts' % short, not diffs, where,
                '' if not diffs else '%s: %s' % (short, ' || '.join(diffs[:6]) + (' || ... %d more' % (len(diffs) - 6) if len(diffs) > 6 else '')))
    frozen = len([k for k in table if k != '_groups' and k.split('|')[0] in set(fns)])
    rep.floor(rule, 'guarded sites', n, max(1, frozen))
