"""ERR-GUARD: every documented error exit of a VFS method is taken exactly under its frozen validation facts;
IO-TABLE: every Stdfs method reaches exactly its frozen set of OS calls;  READ-ONLY: query methods never take the write guard or mutate."""
import re
from mir import Body, callee_of, op_local, op_place
from panics import sdesc_operand, sdesc_place, sdesc_local
import engine, inline

ERR_CTORS = ('<errors::path::PathError>::', '<errors::vfs::VfsError>::', '<std::io::Error>::new', '<std::io::Error>::other')
SCOPE = ('sys::fs::memfs::vfs::Memfs', 'sys::fs::stdfs::Stdfs', 'sys::fs::stdfs::entry::StdfsEntry', 'sys::fs::memfs::entry::MemfsEntry',
         'sys::fs::memfs::entry::MemfsEntryOpts', 'sys::fs::memfs::entry::MemfsEntryIter')


def _split2(inner):
    depth = 0
    for i, ch in enumerate(inner):
        if ch in '([{<':
            depth += 1
        elif ch in ')]}>':
            depth -= 1
        elif ch == ',' and depth == 0:
            return inner[:i], inner[i + 1:]
    return None


FLIP = {'Gt': ('Lt', True, False), 'Ge': ('Lt', False, True), 'Le': ('Lt', True, True), 'Ne': ('Eq', False, True), 'ne': ('eq', False, True),
        'gt': ('lt', True, False), 'ge': ('lt', False, True), 'le': ('lt', True, True)}
NEG1 = {'is_none': 'is_some', 'is_err': 'is_ok'}
VARIANT_OF = {'is_some': ('Some', 'None'), 'is_ok': ('Ok', 'Err')}


def canon_fact(desc, truth):
    """one spelling per comparison: a > b is b < a, a >= b is !(a < b), a != b is !(a == b), is_none is !is_some; operands of == are sorted"""
    m = re.match(r'^([A-Za-z_]+)\((.*)\)$', desc)
    if not m:
        return desc, truth
    op, inner = m.group(1), m.group(2)
    if op in NEG1 and _split2(inner) is None and isinstance(truth, bool):
        op, truth = NEG1[op], not truth
    if op in VARIANT_OF and _split2(inner) is None and isinstance(truth, bool):
        return inner, VARIANT_OF[op][0 if truth else 1]          # x.is_some() == true is the same fact as matching x against Some
    ab = _split2(inner)
    if ab is None or not isinstance(truth, bool):
        return desc, truth
    a, b = ab
    if _split2(b) is not None:
        return desc, truth
    if op in FLIP:
        op, swap, neg = FLIP[op]
        if swap:
            a, b = b, a
        if neg:
            truth = not truth
    if op in ('Eq', 'eq'):
        a, b = sorted((a, b))
    return '%s(%s,%s)' % (op, a, b), truth


def structural_facts(B, bb, _depth=0):
    """facts fixed at block bb, described structurally: ('expr', True/False) for bool tests, ('expr', 'Some'|'None'|'Ok'|'Err') for Option / Result tests"""
    out = []
    for d in sorted(B.dom[bb]):
        if d == bb:
            continue
        t = B.term(d)
        if t['k'] != 'switch' or t['discr']['k'] not in ('copy', 'move'):
            continue
        if t.get('discr_ty') == 'bool':
            false_t = [tb for v, tb in t['targets'] if v == '0']
            one_t = [tb for v, tb in t['targets'] if v == '1']
            true_t = one_t[0] if one_t else t['otherwise']
            if len(false_t) != 1 or false_t[0] == true_t:
                continue
            desc = sdesc_operand(B, t['discr'])
            truth = None
            if B.dominates(true_t, bb) and B.preds[true_t] == [d] and not B.dominates(false_t[0], bb):
                truth = True
            elif B.dominates(false_t[0], bb) and B.preds[false_t[0]] == [d] and not B.dominates(true_t, bb):
                truth = False
            if truth is None:
                continue
            # a flag that is only ever set to the constants true / false (`matches!(..)`, `let ok = match .. { A => true, _ => false }`): the branch is taken
            # exactly when control came through the assignment of that constant, so the facts of that assignment are the facts of the branch
            dl0 = op_local(t['discr'])
            ds0 = B.whole_defs(dl0) if dl0 is not None else []
            hops = 0
            while len(ds0) == 1 and ds0[0][0] == 'assign' and ds0[0][4]['k'] == 'use' and ds0[0][4]['op']['k'] in ('copy', 'move') and not ds0[0][4]['op']['place']['p'] and hops < 4:
                dl0 = ds0[0][4]['op']['place']['l']
                ds0 = B.whole_defs(dl0)
                hops += 1
            if _depth < 3 and len(ds0) == 2 and all(x[0] == 'assign' and x[4]['k'] == 'use' and x[4]['op']['k'] == 'const' and 'bool' in x[4]['op'] for x in ds0) \
                    and {x[4]['op']['bool'] for x in ds0} == {True, False}:
                src_blk = [x[1] for x in ds0 if x[4]['op']['bool'] == truth][0]
                if src_blk != bb:
                    out.extend(structural_facts(B, src_blk, _depth + 1))
                    continue
            while desc.startswith('Not(') and desc.endswith(')'):
                desc = desc[4:-1]
                truth = not truth
            out.append(canon_fact(desc, truth))
        else:
            dl = op_local(t['discr'])
            if dl is None:
                continue
            src = None
            for s in B.blocks[d]['stmts']:
                if s['k'] == 'assign' and s['place']['l'] == dl and s['rv']['k'] == 'discr':
                    src = s['rv']['place']
            if src is None:
                continue
            vn = t.get('variants') or {}
            names = {int(k): v for k, v in vn.items() if k != '__enum'}
            if not names or vn.get('__enum', '').startswith('std::ops::ControlFlow'):
                continue
            desc = sdesc_place(B, src)
            for v, tb in t['targets']:
                if B.dominates(tb, bb) and B.preds[tb] == [d]:
                    out.append((desc, names.get(int(v), v)))
            ot = t['otherwise']
            if B.dominates(ot, bb) and B.preds[ot] == [d] and B.term(ot)['k'] != 'unreachable':
                listed = {int(v) for v, tb in t['targets']}
                rest = [n for k, n in names.items() if k not in listed]
                if len(rest) == 1:
                    out.append((desc, rest[0]))
    return out


def edge_fact(B, d, succ):
    """the fact established by leaving switch block d through its edge to succ, or None"""
    t = B.term(d)
    if t['k'] != 'switch' or t['discr']['k'] not in ('copy', 'move'):
        return None
    if t.get('discr_ty') == 'bool':
        false_t = [tb for v, tb in t['targets'] if v == '0']
        one_t = [tb for v, tb in t['targets'] if v == '1']
        true_t = one_t[0] if one_t else t['otherwise']
        if len(false_t) != 1 or false_t[0] == true_t or succ not in (true_t, false_t[0]):
            return None
        desc, truth = sdesc_operand(B, t['discr']), succ == true_t
        while desc.startswith('Not(') and desc.endswith(')'):
            desc, truth = desc[4:-1], not truth
        return canon_fact(desc, truth)
    dl = op_local(t['discr'])
    src = None
    for st in B.blocks[d]['stmts']:
        if st['k'] == 'assign' and st['place']['l'] == dl and st['rv']['k'] == 'discr':
            src = st['rv']['place']
    vn = t.get('variants') or {}
    names = {int(k): v for k, v in vn.items() if k != '__enum'}
    if src is None or not names or vn.get('__enum', '').startswith('std::ops::ControlFlow'):
        return None
    desc = sdesc_place(B, src)
    for v, tb in t['targets']:
        if tb == succ:
            return desc, names.get(int(v), v)
    if succ == t['otherwise']:
        listed = {int(v) for v, tb in t['targets']}
        rest = [n for k, n in names.items() if k not in listed]
        if len(rest) == 1:
            return desc, rest[0]
    return None


def _trivial_stmts(B, blk):
    """only storage markers and assignments of constants (the `()` value of an `if` without else)"""
    for st in B.blocks[blk]['stmts']:
        if st['k'] == 'setdiscr':
            return False
        if st['k'] == 'assign' and not (st['rv']['k'] == 'use' and st['rv']['op']['k'] == 'const') and not (st['rv']['k'] == 'aggregate' and not st['rv'].get('ops')):
            return False
    return True


def _edge_atoms(B, p, j, depth=0):
    """facts of the branch edges that lead (through fall-through blocks only) into the edge p -> j, or None if some path is not a plain branch edge"""
    k = B.term(p)['k']
    if k == 'switch':
        f = edge_fact(B, p, j)
        return None if f is None else {'%s=%s' % f}
    if k != 'goto' or depth > 4 or not _trivial_stmts(B, p):
        return None
    out = set()
    for q in B.preds.get(p, []):
        if B.dominates(p, q):
            return None
        a = _edge_atoms(B, q, p, depth + 1)
        if a is None:
            return None
        out |= a
    return out or None


def disjunctive_facts(B, bb):
    """conditions of the form `a || b` on the way to bb: a join block that dominates bb and whose every incoming edge comes (through fall-through blocks) straight
    from branch edges with describable facts — the MIR shape of short-circuit `||` / negated `&&`, or-patterns and `matches!` — contributes the alternative
    `fact1|fact2|..`.  Facts fixed by a single edge are already reported by structural_facts (dominance)."""
    out = []
    for j in sorted(B.dom[bb]):
        ps = B.preds.get(j, [])
        if len(ps) < 2:
            continue
        atoms = set()
        for p in ps:
            a = None if B.dominates(j, p) else _edge_atoms(B, p, j)
            if a is None:
                atoms = None
                break
            atoms |= a
        if atoms and len(atoms) > 1:
            byd = {}
            for a in atoms:
                dsc, _, val = a.rpartition('=')
                byd.setdefault(dsc, set()).add(val)
            if any({'Ok', 'Err'} <= v or {'Some', 'None'} <= v or {'True', 'False'} <= v for v in byd.values()):
                continue          # `x is Ok or x is Err`: the join after an exhaustive test says nothing
            out.append(('|'.join(sorted(atoms)), 'either'))
    return out


_COMB_SKIP = {}


def _comb_skip(F):
    import siteguard as _sg
    if id(F) not in _COMB_SKIP:
        _COMB_SKIP[id(F)] = _sg.comb_closures(F)
    return _COMB_SKIP[id(F)]


def collect_err_guards(F, cg):
    import panics as _pn
    prev = _pn.PHI
    _pn.PHI = True          # the same normalised descriptions as the skeleton (payload of unwrap / unwrap_err, phi of a few definitions, numeric casts)
    try:
        return _collect_err_guards(F, cg)
    finally:
        _pn.PHI = prev


def _collect_err_guards(F, cg):
    res = {}
    for name in cg.names():
        b = F.bodies[name]
        root = F.bodies.get(b.get('root', ''), b) if b['kind'] == 'Closure' else b
        if root.get('impl_self') not in SCOPE:
            continue
        if inline.is_new_helper(F, name) or (b['kind'] == 'Closure' and inline.is_new_helper(F, b.get('root', ''))):
            continue          # attributed to the frozen functions that call it
        import siteguard as _sg
        if name in _comb_skip(F):
            continue          # the closure of ok_or_else / map_err / map ...: its exits belong to the function that calls the combinator
        for B, i, t, facts, _inl in inline.walk_calls(F, cg, name, structural_facts, canon_fact):
            c = t.get('callee') or ''
            if c in _sg.COMB and t.get('callable_args'):
                for CB, ci, ct, cfacts, ups, camap in _sg.comb_sites(F, cg, B, i, t, facts):
                    cc = ct.get('callee') or ''
                    if cc.startswith(ERR_CTORS):
                        res.setdefault('%s|%s' % (name, cc.split('::')[-1]), []).append(sorted({_sg.rewrite_comb(f) for f in cfacts}))
                continue
            if not c.startswith(ERR_CTORS):
                continue
            res.setdefault('%s|%s' % (name, c.split('::')[-1]), []).append(sorted({_sg.rewrite_comb(f) for f in facts}))
    for k in res:
        res[k] = sorted(res[k])
    return res


def err_guard(rep, F, cg, table, select, rule='ERR-GUARD'):
    if hasattr(cg, 'prune_never_err'):
        cg = type(cg)(F)          # frozen instances are compared on unpruned control-flow graphs, as at freeze time
    rep.rule(rule, 'every error exit (PathError / VfsError constructor call) in the selected methods is dominated by exactly the validation facts frozen in '
             'tables/err_guards.json (bool tests with their outcome, Option/Result lookups with their variant, all described structurally): a changed, dropped or '
             'weakened validation changes which states produce which documented error')
    cur = collect_err_guards(F, cg)
    n = 0
    for key in sorted(set(table) | set(cur)):
        fn = key.split('|')[0]
        if not select(fn):
            continue
        want = table.get(key)
        got = cur.get(key)
        n += 1
        short = key.replace('sys::fs::', '').replace('vfs::VirtualFileSystem', 'VFS')
        if want is None:
            where = ''
            rep.add(rule, 'errguard:%s' % key, 'error exit %s is a frozen exit' % short, False, where,
                    'new error exit %s under the facts %s: not in the frozen table (a new failure mode of the method)' % (short, got))
        elif got is None:
            rep.add(rule, 'errguard:%s' % key, 'error exit %s still exists' % short, False, '',
                    'the error exit %s (frozen guard %s) no longer exists: the method no longer reports this failure' % (short, want))
        else:
            ok = got == want
            rep.add(rule, 'errguard:%s' % key, 'error exit %s is guarded by its frozen validation facts' % short, ok, '',
                    '' if ok else 'error exit %s is now taken under %s; frozen: %s' % (short, got, want), [str(want)] if ok else [])
    rep.floor(rule, 'error exits', n, 10)


# ------------------------------------------------------------------------------------------------ IO-TABLE
IO_CALL = re.compile(r'^(std::fs::|<std::fs::File>::|<std::fs::OpenOptions>::|nix::|<nix::|std::os::unix::fs::|std::env::(set_current_dir|current_dir)|'
                     r'<std::path::Path>::(exists|metadata|symlink_metadata|canonicalize|read_link|read_dir|is_dir|is_file|is_symlink|try_exists)$|'
                     r'<std::fs::Metadata>::(is_dir|is_file|is_symlink|file_type)$|<std::fs::FileType>::is_symlink$|<std::fs::Permissions as std::os::unix::fs::PermissionsExt>::)')


def collect_io(F, cg, impl_self):
    res = {}
    for name in cg.names():
        b = F.bodies[name]
        root = F.bodies.get(b.get('root', ''), b) if b['kind'] == 'Closure' else b
        if root.get('impl_self') != impl_self or root.get('impl_trait'):
            continue
        if inline.is_new_helper(F, name) or (b['kind'] == 'Closure' and inline.is_new_helper(F, b.get('root', ''))):
            continue
        calls = sorted({(t.get('callee') or '') for B, i, t, _f, _inl in inline.walk_calls(F, cg, name, lambda B, i: [], canon_fact)
                        if IO_CALL.match(t.get('callee') or '')})
        if calls:
            res[name] = calls
    return res


def io_table(rep, F, cg, table, impl_self='sys::fs::stdfs::Stdfs', rule='IO-TABLE'):
    if hasattr(cg, 'prune_never_err'):
        cg = type(cg)(F)          # frozen instances are compared on unpruned control-flow graphs, as at freeze time
    rep.rule(rule, 'every Stdfs function (and its closures) calls exactly the set of OS-level APIs (std::fs, File, OpenOptions, nix, unix::fs, metadata kind queries) '
             'frozen in tables/stdfs_io.json — in particular which of metadata / symlink_metadata (following / not following links) it uses')
    cur = collect_io(F, cg, impl_self)
    cur.update(collect_io(F, cg, 'sys::fs::stdfs::entry::StdfsEntry'))
    n = 0
    for fn in sorted(set(table) | set(cur)):
        n += 1
        want, got = table.get(fn, []), cur.get(fn, [])
        ok = want == got
        add = sorted(set(got) - set(want))
        rem = sorted(set(want) - set(got))
        rep.add(rule, 'iotable:%s' % fn, '%s uses its frozen set of OS calls' % fn, ok, '',
                '' if ok else '%s changed its OS calls: added %s, dropped %s (e.g. following vs non-following metadata, a different removal / creation primitive)' % (fn, add, rem))
    rep.floor(rule, 'Stdfs functions with OS calls', n, 30)


# ------------------------------------------------------------------------------------------------ READ-ONLY
QUERIES = ['abs', 'cwd', 'root', 'entry', 'entries', 'exists', 'gid', 'uid', 'owner', 'mode', 'is_exec', 'is_dir', 'is_file', 'is_readonly', 'is_symlink',
           'is_symlink_dir', 'is_symlink_file', 'readlink', 'readlink_abs', 'read', 'read_all', 'read_lines', 'paths', 'dirs', 'files', 'all_paths',
           'all_dirs', 'all_files', 'config_dir']


def read_only(rep, F, cg, M, rule='READ-ONLY'):
    """query methods of Memfs never take the write guard and never reach a mutation"""
    TR = 'sys::fs::vfs::VirtualFileSystem'
    MEMFS = 'sys::fs::memfs::vfs::Memfs'
    rep.rule(rule, 'the query / read / listing methods of Memfs reach (transitively, over direct calls) neither Memfs::write_guard nor any mutation event '
             '(accessor mutators, writes through *_mut getters): a query never changes the tree')
    n = 0
    for m in QUERIES:
        fn = '<%s as %s>::%s' % (MEMFS, TR, m)
        if fn not in F.bodies:
            rep.add(rule, 'readonly:%s' % m, 'Memfs::%s exists' % m, False, detail='anchor missing')
            continue
        n += 1
        seen = set()
        work = [fn]
        bad = []
        while work:
            x = work.pop()
            if x in seen or x not in F.bodies:
                continue
            seen.add(x)
            if x.endswith('>::write_guard'):
                bad.append('takes the write guard')
                continue
            if M.events(x) and not F.bodies[x].get('impl_self', '').startswith('sys::fs::memfs::file::MemfsFile'):
                bad.append('mutates in %s' % x.split('::')[-1])
            for e in cg.edges(x):
                if e.kind == 'call':
                    work.append(e.target)
        B = cg.body(fn)
        rep.add(rule, 'readonly:%s' % m, 'Memfs::%s is read-only' % m, not bad, '%s:%d' % (B.file, B.line),
                '' if not bad else 'Memfs::%s %s: a query changes the filesystem' % (m, '; '.join(sorted(set(bad)))))
    rep.floor(rule, 'query methods', n, 25)
