"""C10 — symlinks record their target and are never mistaken for it.
Decided: DEPENDS (link exclusion in is_file/is_dir), GUARDED-BY (non-link guard where alt/rel are returned; follow swaps once), NOFOLLOW
(Stdfs::remove classifies the entry itself), Entry defaults for is_symlink_dir/file, SIBLING (follow).  Not decided: readlink values."""
import engine, linkrules, setters
from callgraph import CallGraph
from atomic import PairCheck, Mutation
from mir import callee_of, op_local
from panics import sdesc_operand, describe_operand

TR = 'sys::fs::vfs::VirtualFileSystem'
MEMFS = 'sys::fs::memfs::vfs::Memfs'
STDFS = 'sys::fs::stdfs::Stdfs'
ENTRY_TR = 'sys::fs::entry::Entry'
EXPLANATION = (
    "Decided structural clauses: link exclusion — in is_file / is_dir of both backends (and Memfs::_is_dir) the kind query is evaluated only on the "
    "path where the entry is NOT a symlink (DEPENDS); readlink / readlink_abs of both backends hand out the stored link target only on the path where "
    "the entry IS a symlink (GUARDED-BY); entry.follow swaps path and alt only under follow && link && !already-followed, sets the followed flag, and the "
    "two backends agree (GUARDED-BY + SIBLING); Stdfs::remove classifies with symlink_metadata, never the following metadata (NOFOLLOW); the Entry "
    "defaults is_symlink_dir / is_symlink_file are exactly is_symlink && is_dir / is_file. NOT decided: readlink_abs == abs(target), the relative "
    "navigation law, kind inheritance at creation (runtime path values).")


def run(rep, F, ctx):
    cg = CallGraph(F)
    M = Mutation(F, cg)
    P = PairCheck(F, cg, M)
    rep.rule('DEPENDS', 'in every kind query that must exclude links, the is_file / is_dir evaluation is reached only through the NOT-a-symlink edge of '
             'an is_symlink test on the same entry, so the returned bool depends on the link flag')
    n = 0
    kind = lambda B, i, t: (t.get('callee') or '').split('::')[-1] in ('is_file', 'is_dir') and not (t.get('callee') or '').startswith('sys::fs::vfs')
    for fn in ('<%s as %s>::is_file' % (MEMFS, TR), '<%s>::_is_dir' % MEMFS, '<%s>::is_file' % STDFS, '<%s>::is_dir' % STDFS):
        n += linkrules.guarded_sites(rep, 'DEPENDS', 'depends', F, cg, fn, kind, [[('false', r'is_symlink\(')]],
                                     '%(fn)s evaluates %(site)s only for a non-link entry',
                                     '%(fn)s reports %(site)s at %(loc)s without excluding symlinks: a link is mistaken for its target', P)
    # Memfs::is_dir forwards to _is_dir
    fn = '<%s as %s>::is_dir' % (MEMFS, TR)
    if fn in F.bodies:
        B = cg.body(fn)
        ok = any((callee_of(t) or '') == '<%s>::_is_dir' % MEMFS for i, t in B.calls()) and B.norm_local(0).startswith('call@')
        rep.add('DEPENDS', 'depends:Memfs::is_dir->_is_dir', 'Memfs::is_dir returns the result of _is_dir', ok, '%s:%d' % (B.file, B.line),
                '' if ok else 'Memfs::is_dir no longer delegates to _is_dir')
    rep.floor('DEPENDS', 'kind-query sites', n, 4)

    rep.rule('GUARDED-BY', 'a function that returns an entry\'s alt / rel as the link target does so only on the path where is_symlink() held; '
             'mem::swap(path, alt) in follow is reached only under follow && link && !followed')
    give = lambda B, i, t: (t.get('callee') or '').split('::')[-1] in ('alt_buf', 'rel_buf', 'alt', 'rel', 'read_link')
    m = 0
    for fn in ('<%s as %s>::readlink' % (MEMFS, TR), '<%s as %s>::readlink_abs' % (MEMFS, TR), '<%s>::readlink_abs' % STDFS):
        m += linkrules.guarded_sites(rep, 'GUARDED-BY', 'guarded', F, cg, fn, give, [[('true', r'is_symlink\(')]],
                                     '%(fn)s hands out %(site)s only for a symlink',
                                     '%(fn)s returns %(site)s at %(loc)s without checking that the entry is a symlink: a non-link yields a bogus target instead of an error', P)
    # Stdfs::readlink relies on fs::read_link, which fails for non-links (OS check) — recorded, not armed
    rep.note('Stdfs::readlink delegates the non-link check to std::fs::read_link (EINVAL for non-links); not a structural obligation')
    swap = lambda B, i, t: (t.get('callee') or '') == 'std::mem::swap'
    for fn in ('<sys::fs::memfs::entry::MemfsEntry as %s>::follow' % ENTRY_TR, '<sys::fs::stdfs::entry::StdfsEntry as %s>::follow' % ENTRY_TR):
        m += linkrules.guarded_sites(rep, 'GUARDED-BY', 'guarded', F, cg, fn, swap,
                                     [[('true', r'^(arg2|follow)$')], [('true', r'\.link$')], [('false', r'\.follow$')]],
                                     '%(fn)s swaps path and alt only under follow && link && !followed',
                                     '%(fn)s swaps path/alt at %(loc)s without the guard %(missing)s: a second follow(true) would swap back', P)
        if fn in F.bodies:
            B = cg.body(fn)
            sw = [i for i, t in B.calls() if swap(B, i, t)]
            sets = [i for i, j, s in B.assigns() if s['place']['p'] and s['place']['p'][-1].get('name') == 'follow' and s['rv']['k'] == 'use' and s['rv']['op'].get('bool') is True]
            ok = bool(sw) and bool(sets) and all(any(B.dominates(x, y) or B.dominates(y, x) for x in sets) for y in sw)
            args_ok = bool(sw) and sorted(sdesc_operand(B, a) for a in B.term(sw[0])['args']) == ['arg1.alt', 'arg1.path']
            rep.add('GUARDED-BY', 'guarded:%s:sets-flag' % fn, 'follow records that the swap happened (self.follow = true) and swaps exactly path <-> alt', ok and args_ok,
                    '%s:%d' % (B.file, B.line), '' if (ok and args_ok) else 'follow does not set the followed flag together with the swap, or swaps other fields')
    rep.floor('GUARDED-BY', 'guarded sites', m, 5)

    rep.rule('KIND-INHERIT', 'Memfs::_symlink switches the new link to directory kind only on the is_dir() edge of the entry looked up under the SAME resolved target '
             'value that is stored as the link target (link_to argument): the kind is inherited from the target itself, not from another spelling or base')
    fn = '<%s>::_symlink' % MEMFS
    if fn in F.bodies:
        from panics import known_facts, skey_call
        B = cg.body(fn)
        lt = {sdesc_operand(B, t['args'][1]) for i, t in B.calls() if (callee_of(t) or '').endswith('MemfsEntryOpts>::link_to')}
        dirs = [i for i, t in B.calls() if (callee_of(t) or '').endswith('MemfsEntryOpts>::dir')]
        probs = []
        if len(lt) != 1:
            probs.append('link_to is called with %d different target values' % len(lt))
        T = sorted(lt)[0] if lt else None
        want = 'get_entry(arg2,%s)' % T
        for i in dirs:
            good = False
            for d in B.dom[i]:
                tt = B.term(d)
                if tt['k'] != 'switch' or tt.get('discr_ty') != 'bool':
                    continue
                dl = op_local(tt['discr'])
                ds = B.whole_defs(dl) if dl is not None else []
                if len(ds) == 1 and ds[0][0] == 'call' and (callee_of(ds[0][3]) or '').split('::')[-1] == 'is_dir':
                    src = sdesc_operand(B, ds[0][3]['args'][0])
                    tt_true = [tb for v, tb in tt['targets'] if v == '1'] or [tt['otherwise']]
                    if src.startswith(want) and B.dominates(tt_true[0], i):
                        good = True
            if not good:
                probs.append('the switch to directory kind at %s is not decided by is_dir() of the entry stored under the link target %s' % (B.loc(i), T))
        if not dirs:
            probs.append('_symlink never switches a link to directory kind')
        rep.add('KIND-INHERIT', 'kindinherit:_symlink', '_symlink inherits the link kind from the entry stored under the resolved target', not probs, '%s:%d' % (B.file, B.line),
                '' if not probs else '; '.join(probs) + ' — is_symlink_dir / is_symlink_file no longer reflect the kind of the target for every spelling')
    else:
        rep.add('KIND-INHERIT', 'kindinherit:_symlink', 'Memfs::_symlink exists', False, detail='anchor missing')

    rep.rule('NOFOLLOW', 'Stdfs::remove obtains the kind of its target from symlink_metadata (the entry itself), never from the link-following metadata')
    fn = '<%s>::remove' % STDFS
    if fn in F.bodies:
        B = cg.body(fn)
        cs = [(t.get('callee') or '') for i, t in B.calls()]
        ok = 'std::fs::symlink_metadata' in cs and 'std::fs::metadata' not in cs and not any(c.endswith('Path>::metadata') or c.endswith('Path>::is_dir') or c.endswith('Path>::is_file') or c.endswith('Path>::exists') for c in cs)
        rep.add('NOFOLLOW', 'nofollow:Stdfs::remove', 'Stdfs::remove classifies with symlink_metadata only', ok, '%s:%d' % (B.file, B.line),
                '' if ok else 'Stdfs::remove classifies its target with a link-following query: a link to a directory is treated as a directory, a dangling link as missing')
        # links are unlinked like files: remove_file reachable under is_symlink
        rf = lambda B, i, t: (t.get('callee') or '') == 'std::fs::remove_file'
        esc = P.escape_edges(B, [('true', r'is_symlink\('), ('true', r'is_file\(')])
        sites = [i for i, t in B.calls() if rf(B, i, t)]
        ok2 = bool(sites) and bool(P.escape_edges(B, [('true', r'is_symlink\(')]))
        rep.add('NOFOLLOW', 'nofollow:Stdfs::remove:unlink-links', 'Stdfs::remove unlinks a symlink itself (remove_file under an is_symlink test)', ok2,
                '%s:%d' % (B.file, B.line), '' if ok2 else 'Stdfs::remove has no is_symlink case: a link is not removed')
    else:
        rep.add('NOFOLLOW', 'nofollow:Stdfs::remove', 'Stdfs::remove exists', False, detail='anchor missing')

    rep.rule('ENTRY-DEFAULTS', 'Entry::is_symlink_dir = is_symlink && is_dir and Entry::is_symlink_file = is_symlink && is_file (callee sets and short-circuit shape of the two default bodies)')
    for meth, other in (('is_symlink_dir', 'is_dir'), ('is_symlink_file', 'is_file')):
        fn = '%s::%s' % (ENTRY_TR, meth)
        if fn not in F.bodies:
            rep.add('ENTRY-DEFAULTS', 'entrydefault:%s' % meth, '%s has a default body' % fn, False, detail='default body missing')
            continue
        B = cg.body(fn)
        cs = sorted((t.get('callee') or '').split('::')[-1] for i, t in B.calls())
        ok = cs == sorted(['is_symlink', other])
        # the second query is reached only on the true edge of the first, and the result is false otherwise
        second = [i for i, t in B.calls() if (t.get('callee') or '').split('::')[-1] == other]
        esc = P.escape_edges(B, [('true', r'is_symlink\(')])
        ok = ok and bool(second) and P.path_avoiding(B, [0], set(second), set(), esc) is None
        rep.add('ENTRY-DEFAULTS', 'entrydefault:%s' % meth, '%s == is_symlink() && %s()' % (meth, other), ok, '%s:%d' % (B.file, B.line),
                '' if ok else '%s calls %s' % (fn, cs))
    # sibling: the two follow implementations have the same skeleton
    setters.sibling_calls(rep, 'SIBLING', 'sibling:follow', F, cg, '<sys::fs::memfs::entry::MemfsEntry as %s>::follow' % ENTRY_TR,
                          '<sys::fs::stdfs::entry::StdfsEntry as %s>::follow' % ENTRY_TR, lambda t: True,
                          [(r'MemfsEntry', 'E'), (r'StdfsEntry', 'E')], 'MemfsEntry::follow and StdfsEntry::follow make the same calls on the same fields')
    rep.rule('SIBLING', 'method pairs declared mirrors have identical call skeletons (callees and structural argument descriptions) after backend renaming')
    import siteguard as _sg
    _t = engine.load_table('site_guards.json')
    _sg.site_guard(rep, F, cg, _t, _t['_groups']['C10'])
    return engine.finish(
        rep, 'other', EXPLANATION,
        assumptions=['std::fs::read_link fails for a non-link (OS contract) — used by Stdfs::readlink'],
        trusted_base=['rustc nightly MIR', 'extractor/', 'rules/linkrules.py, rules/atomic.py (path search with required edges)'],
        checker_cmd='./check C10', seed=ctx['seed'])
