"""C17 — expand() substitutes ~ and variables exactly.
Decided clause: expansion fails rather than guessing for a variable that is not set (ERR-PROP).  Not decided: the substitution result."""
import engine, envrules
from callgraph import CallGraph

EXPLANATION = (
    "Decided clause ('expansion fails rather than guessing ... for a variable that is not set'): the Result of every std::env::var call in "
    "path::expand and path::home_dir, and of home_dir() in expand, is consumed only by `?` whose error arm returns the error; it is never turned into "
    "a default (ok(), unwrap_or*, unwrap_or_default, let _, a substituting match). Dropping one of them would make an unset variable expand silently and "
    "passes the existing tests, which run with HOME set. Also decided: the other failure exits exist structurally (multiple '~', misplaced '~', empty "
    "variable name each reach an Err(PathError::..) constructor), and the '$' that ends literal text is consumed observably, so that a '$' ending a component "
    "reaches the empty-name exit (EMPTY-NAME). NOT decided: the substitution result for all templates and environments.")


def var_terminators(rep, F, cg):
    """`each $NAME or ${NAME} is replaced by that variable's value`: where a name ends is part of what NAME means"""
    R = 'VAR-TERMINATORS'
    rep.rule(R, 'the scanner predicates of expand (the closures handed to take_while / take_while_p) are pure comparisons of the character with constants, the constants '
             'are exactly \'$\' (literal text ends at a variable) and {\'$\', \'}\'} (a variable name ends at the next variable or at the closing brace), and they call '
             'nothing (no character-class test can cut a name short)')
    fn = 'sys::fs::path::expand'
    cls = sorted(n for n in F.bodies if n.startswith(fn + '::{closure'))
    sets, calls = [], []
    for n in cls:
        B = cg.body(n)
        if B.local_ty(0) != 'bool':
            continue
        cs = set()
        for i, j, s in B.assigns():
            rv = s['rv']
            if rv['k'] == 'binop' and rv['op'] in ('Eq', 'Ne'):
                for o in (rv['l'], rv['r']):
                    if o['k'] == 'const' and o.get('ty') == 'char':
                        cs.add(int(o.get('int', o.get('sint', -1))))
        for i in B.normal:
            t = B.term(i)
            if t['k'] == 'switch' and t.get('discr_ty') == 'char':
                cs |= {int(v) for v, tb in t['targets']}
        sets.append(cs)
        calls += [(t.get('callee') or '') for i, t in B.calls()]
    want = sorted([[36], [36, 125]])
    got = sorted(sorted(c) for c in sets)
    ok = got == want and not calls
    rep.add(R, 'varterm:expand', 'literal text ends at $; a variable name ends at $ or }', ok, F.bodies[fn]['_file'] if fn in F.bodies else '',
            '' if ok else 'the scanner predicates of expand compare against %s and call %s (expected the constants [[\'$\'], [\'$\', \'}\']] as code points %s and no calls): '
            'variable names are delimited differently' % (got, sorted(set(calls)), want))


def _char_consts(B):
    cs = set()
    for i, j, s in B.assigns():
        rv = s['rv']
        if rv['k'] == 'binop' and rv['op'] in ('Eq', 'Ne'):
            for o in (rv['l'], rv['r']):
                if o['k'] == 'const' and o.get('ty') == 'char':
                    cs.add(int(o.get('int', o.get('sint', -1))))
    for i in B.normal:
        t = B.term(i)
        if t['k'] == 'switch' and t.get('discr_ty') == 'char':
            cs |= {int(v) for v, tb in t['targets']}
    return cs


def empty_name(rep, F, cg):
    """`expansion fails rather than guessing for ... an empty variable name`: the empty-name check sits in the block that reads a variable, and that block is
    entered only when something follows the `$`. Structural necessary condition: the `$` that ends the literal text must be consumed observably. std's
    Iterator::take_while swallows the element it stops at, so after it a component that ends in `$` cannot be told from one that simply ended, and the failure
    exit is never reached for it (`expand("/foo/bar$") == Ok("/foo/bar")`)."""
    from panics import skey_call
    R = 'EMPTY-NAME'
    rep.rule(R, "the scanner of expand that ends literal text at '$' (the closure that compares the character with '$' only) is not handed to std's consuming "
             "Iterator::take_while on the shared character stream, unless the component is separately tested for a trailing '$': the consuming adapter swallows the "
             "'$' it stops at, a '$' that ends a component then looks like the end of the text and the empty-name failure exit is never reached")
    fn = 'sys::fs::path::expand'
    if fn not in F.bodies:
        rep.add(R, 'emptyname:anchor', '%s exists' % fn, False, detail='anchor missing')
        return
    B = cg.body(fn)
    keys = [skey_call(B, t) for i, t in B.calls()]
    indep = any(k.startswith(('ends_with(', 'has_suffix(')) and (',36)' in k or "'$'" in k) for k in keys)
    n = 0
    for i, t in B.calls():
        for c in t.get('callable_args') or []:
            if c not in F.bodies or _char_consts(cg.body(c)) != {36}:
                continue
            n += 1
            callee = t.get('callee') or ''
            consuming = callee.split('::')[-1] == 'take_while' and 'Iterator' in callee
            ok = (not consuming) or indep
            rep.add(R, 'emptyname:expand:literal-scanner=%s' % callee.split('::')[-1], "the '$' that ends literal text is consumed observably", ok, '%s:%d' % (B.file, B.line),
                    '' if ok else "expand scans literal text with %s, which swallows the '$' it stops at: a component ending in '$' (an empty variable name) "
                    "skips the variable block and is returned without the '$' instead of failing" % callee)
    rep.floor(R, "scanners of expand that end literal text at '$'", n, 1)


def run(rep, F, ctx):
    cg = CallGraph(F)
    envrules.err_prop(rep, F, cg, [
        ('sys::fs::path::expand', 'std::env::var', 'variable reference $NAME / ${NAME}'),
        ('sys::fs::path::home_dir', 'std::env::var', 'HOME lookup'),
        ('sys::fs::path::expand', 'sys::fs::path::home_dir', 'leading ~'),
    ])
    # the documented failure exits exist
    rep.rule('FAIL-EXITS', 'expand has an error exit constructing PathError::MultipleHomeSymbols and PathError::InvalidExpansion (two sites: misplaced ~, empty variable name)')
    fn = 'sys::fs::path::expand'
    if fn in F.bodies:
        B = cg.body(fn)
        ctors = [(t.get('callee') or '').split('::')[-1] for i, t in B.calls() if 'errors::path::PathError' in (t.get('callee') or '')]
        ok = ctors.count('multiple_home_symbols') >= 1 and ctors.count('invalid_expansion') >= 2
        rep.add('FAIL-EXITS', 'failexits:expand', 'expand can fail with MultipleHomeSymbols and (twice) InvalidExpansion', ok, '%s:%d' % (B.file, B.line),
                '' if ok else 'error constructors found in expand: %s' % ctors)
    rep.rule('TILDE-COUNT', 'the number that selects the home-expansion arms of expand is str::matches(\'~\').count() over the WHOLE path string (every \'~\' character '
             'counts, also inside a component), and the MultipleHomeSymbols exit is taken exactly on count > 1')
    fn = 'sys::fs::path::expand'
    if fn in F.bodies:
        from panics import skey_call, sdesc_operand, known_facts
        from mir import op_local
        B = cg.body(fn)
        keys = [skey_call(B, t) for i, t in B.calls()]
        ok_count = "count(matches(to_string(arg1)?,126))" in keys
        # the guard of the multiple-home error compares that count with 1
        ok_guard = False
        for i, t in B.calls():
            if (t.get('callee') or '').endswith('PathError>::multiple_home_symbols'):
                for d in B.dom[i]:
                    tt = B.term(d)
                    if tt['k'] == 'switch' and tt.get('discr_ty') == 'bool':
                        dl = op_local(tt['discr'])
                        ds = B.whole_defs(dl) if dl is not None else []
                        if len(ds) == 1 and ds[0][0] == 'assign' and ds[0][4]['k'] == 'binop' and ds[0][4]['op'] in ('Gt', 'Lt', 'Ge', 'Le'):
                            l, r = sdesc_operand(B, ds[0][4]['l']), sdesc_operand(B, ds[0][4]['r'])
                            cnt, op = 'count(matches(to_string(arg1)?,126))', ds[0][4]['op']
                            if (op == 'Gt' and l == cnt and r == '1') or (op == 'Lt' and l == '1' and r == cnt) or \
                                    (op == 'Ge' and l == cnt and r == '2') or (op == 'Le' and l == '2' and r == cnt):
                                ok_guard = True
        rep.add('TILDE-COUNT', 'tildecount:expand', 'expand counts every ~ of the whole string and rejects more than one', ok_count and ok_guard, '%s:%d' % (B.file, B.line),
                '' if (ok_count and ok_guard) else 'expand does not select its home-expansion arm by count(matches(whole path string, \'~\')) > 1 (count found: %s, guard found: %s): a ~ inside a component is not seen' % (ok_count, ok_guard))
    var_terminators(rep, F, cg)
    empty_name(rep, F, cg)
    import primtable as _pt
    _pt.prim_table(rep, F, cg, engine.load_table('primitives.json'), _pt.GROUPS['C17'])
    import siteguard as _sg
    _t = engine.load_table('site_guards.json')
    _sg.site_guard(rep, F, cg, _t, _t['_groups']['C17'])
    return engine.finish(
        rep, 'other', EXPLANATION,
        assumptions=['std::env::var returns Err for an unset (or non-unicode) variable'],
        trusted_base=['rustc nightly MIR (the `?` desugaring is explicit)', 'extractor/', 'rules/envrules.py'],
        checker_cmd='./check C17', seed=ctx['seed'])
