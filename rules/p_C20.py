"""C20 — the assert_vfs_* macros are sound and complete oracles.
Analysed on harness/macros (one probe function per macro, never executed): MACRO-NAME, CHECK, EQ, ACT, POST.
Not decided: that the backend queries the macros rely on are themselves right in every state (C01/C02/C10)."""
import re
import engine
from mir import Body, callee_of, op_local
from atomic import PairCheck, Mutation
from callgraph import CallGraph
from panics import describe_operand, describe_local, known_facts

NEEDS_HARNESS = True
TR = 'rivia::sys::VirtualFileSystem'
EXPLANATION = (
    "Each macro is expanded in a probe function `fn probe_X(vfs: &Vfs, ..) { assert_vfs_X!(vfs, ..) }` of a harness crate that is type-checked "
    "against the current tree and analysed as MIR, never executed; a panic is a diverging panic_fmt call, 'passes' is a normal return. Decided for every "
    "state and path: MACRO-NAME — every panic message of macro X names X!; CHECK — a positive macro returns only through the TRUE edge of its predicate "
    "query (never vacuously), a negative macro only through the FALSE edge of exists / of its predicate, and the true edge of a negative predicate reaches "
    "only panic; EQ — value comparisons use ==/!= on the queried value (no suffix / prefix / contains test); ACT — every returning path of an acting "
    "macro performs the operation (or, for the idempotent ones, the edges that already establish the postcondition); POST — after the operation every "
    "returning path passes the postcondition query on its accepting edge. NOT decided: that exists / is_dir / read_all ... themselves answer correctly in "
    "every filesystem state on either backend (that is C01 / C02 / C10), so 'on either backend' holds up to the queries' own correctness.")

PANIC = ('std::rt::panic_fmt', 'core::panicking::panic_fmt', 'core::panicking::panic', 'std::rt::begin_panic', 'core::panicking::panic_display')

# spec per macro: requirements every entry->return path must satisfy.
#   ('edge', truth, query)   : passes the given edge of a switch on the bool result of vfs.<query>(..)
#   ('call', op)             : passes a call of vfs.<op>(..)
#   ('eq',)                  : passes the "equal" edge of a ==/!= comparison
# each requirement is a list of alternatives
SPEC = {
    'exists':       {'kind': 'positive', 'req': [[('edge', True, 'exists')]]},
    'no_exists':    {'kind': 'negative', 'req': [[('edge', False, 'exists')]], 'pred': 'exists'},
    'is_dir':       {'kind': 'positive', 'req': [[('edge', True, 'is_dir')]]},
    'no_dir':       {'kind': 'negative', 'req': [[('edge', False, 'exists'), ('edge', False, 'is_dir')]], 'pred': 'is_dir'},
    'is_file':      {'kind': 'positive', 'req': [[('edge', True, 'is_file')]]},
    'no_file':      {'kind': 'negative', 'req': [[('edge', False, 'exists'), ('edge', False, 'is_file')]], 'pred': 'is_file'},
    'is_symlink':   {'kind': 'positive', 'req': [[('edge', True, 'is_symlink')]]},
    'no_symlink':   {'kind': 'negative', 'req': [[('edge', False, 'exists'), ('edge', False, 'is_symlink')]], 'pred': 'is_symlink'},
    'read_all':     {'kind': 'positive', 'req': [[('edge', True, 'is_file')], [('call', 'read_all')], [('eq',)]], 'compare': True},
    'readlink':     {'kind': 'positive', 'req': [[('edge', True, 'is_symlink')], [('call', 'readlink')], [('eq',)]], 'compare': True},
    'readlink_abs': {'kind': 'positive', 'req': [[('edge', True, 'is_symlink')], [('call', 'readlink_abs')], [('eq',)]], 'compare': True},
    'mkdir_p':      {'kind': 'acting', 'req': [[('call', 'mkdir_p')], [('edge', True, 'is_dir')], [('eq',)]], 'compare': True},
    'mkdir_m':      {'kind': 'acting', 'req': [[('call', 'mkdir_m')], [('call', 'mode')], [('edge', True, 'is_dir')], [('eq',)]], 'compare': True},
    'mkfile':       {'kind': 'acting', 'req': [[('call', 'mkfile'), ('edge', True, 'exists')], [('edge', True, 'is_file')]], 'compare': True},
    'write_all':    {'kind': 'acting', 'req': [[('call', 'write_all')], [('edge', True, 'is_file')]]},
    'copyfile':     {'kind': 'acting', 'req': [[('edge', True, 'exists')], [('call', 'copy')], [('call', 'read_all')], [('edge', True, 'is_file')], [('eq',)]], 'compare': True},
    'symlink':      {'kind': 'acting', 'req': [[('call', 'symlink'), ('edge', True, 'exists')], [('edge', True, 'is_symlink')]], 'compare': True},
    'remove':       {'kind': 'acting', 'req': [[('edge', False, 'exists')], [('call', 'remove'), ('edge', False, 'exists')]]},
    'remove_all':   {'kind': 'acting', 'req': [[('call', 'remove_all')], [('edge', False, 'exists')]]},
}
COMPARE_OK = ('eq', 'ne')
COMPARE_BAD = re.compile(r'(has_suffix|has_prefix|starts_with|ends_with|contains|has)$')


def vfs_call(t, name):
    c = t.get('callee') or ''
    return c.endswith('VirtualFileSystem::%s' % name) or c.endswith('::VirtualFileSystem>::%s' % name)


def bool_source(B, dl):
    """(call terminator, negated) producing the bool local, through Not / copies"""
    cur = dl
    neg = False
    for _ in range(6):
        ds = B.whole_defs(cur)
        if len(ds) != 1:
            return None, neg
        d = ds[0]
        if d[0] == 'call':
            return d[3], neg
        rv = d[4]
        if rv['k'] == 'unop' and rv['op'] == 'Not':
            neg = not neg
            cur = op_local(rv['a'])
        elif rv['k'] == 'use':
            cur = op_local(rv['op'])
        else:
            return None, neg
        if cur is None:
            return None, neg
    return None, neg


def edges_for(B, alt):
    """CFG edges (bb, target) satisfying one alternative"""
    out = set()
    if alt[0] == 'edge':
        _, truth, q = alt
        for d in B.normal:
            t = B.term(d)
            if t['k'] != 'switch' or t.get('discr_ty') != 'bool':
                continue
            dl = op_local(t['discr'])
            if dl is None:
                continue
            src, neg = bool_source(B, dl)
            if src is None or not vfs_call(src, q):
                continue
            false_t = [tb for v, tb in t['targets'] if v == '0']
            one_t = [tb for v, tb in t['targets'] if v == '1']
            true_t = one_t[0] if one_t else t['otherwise']
            want_true = truth != neg
            if want_true:
                out.add((d, true_t))
            elif false_t:
                out.add((d, false_t[0]))
    elif alt[0] == 'eq':
        for d in B.normal:
            t = B.term(d)
            if t['k'] != 'switch' or t.get('discr_ty') != 'bool':
                continue
            dl = op_local(t['discr'])
            if dl is None:
                continue
            src, neg = bool_source(B, dl)
            val = None
            if src is not None:
                name = (src.get('callee') or '').split('::')[-1]
                if name == 'eq':
                    val = True
                elif name == 'ne':
                    val = False
            else:
                # primitive comparison
                ds = B.whole_defs(dl)
                if len(ds) == 1 and ds[0][0] == 'assign' and ds[0][4]['k'] == 'binop' and ds[0][4]['op'] in ('Eq', 'Ne'):
                    val = ds[0][4]['op'] == 'Eq'
            if val is None:
                continue
            false_t = [tb for v, tb in t['targets'] if v == '0']
            one_t = [tb for v, tb in t['targets'] if v == '1']
            true_t = one_t[0] if one_t else t['otherwise']
            equal_when_true = val != neg
            if equal_when_true:
                out.add((d, true_t))
            elif false_t:
                out.add((d, false_t[0]))
    return out


def run(rep, F, ctx):
    H = ctx['harness']
    cg = CallGraph(F)
    P = PairCheck(F, cg, Mutation(F, cg))
    rep.rule('MACRO-NAME', 'every panic message template inside the expansion of macro X that names an assert_vfs_* macro names X! (read from the format-string constants of the probe\'s MIR)')
    rep.rule('CHECK', 'positive macros: every entry->return path takes the TRUE edge of the predicate query; negative macros: every entry->return path takes the '
             'FALSE edge of exists or of the predicate, and from the TRUE edge of the predicate no return is reachable (only panic)')
    rep.rule('EQ', 'every branch condition computed from a comparison of a queried value uses PartialEq::eq / ne (or a primitive ==/!=); no has_suffix / '
             'starts_with / contains style test')
    rep.rule('ACT/POST', 'acting macros: every entry->return path passes the operation call (or the edges that already establish the postcondition for the '
             'idempotent ones) and the accepting edge of the postcondition query')
    n = 0
    for m, spec in sorted(SPEC.items()):
        pb = H.bodies.get('probe_%s' % m)
        if pb is None:
            rep.add('CHECK', 'macro:%s:probe' % m, 'probe for assert_vfs_%s! exists and type-checks' % m, False, detail='harness has no probe_%s (macro removed or renamed?)' % m)
            continue
        B = Body(pb)
        n += 1
        mname = 'assert_vfs_%s!' % m
        # ---- MACRO-NAME
        texts = set()

        def walk(o):
            if isinstance(o, dict):
                if o.get('k') == 'const':
                    for kk in ('str', 'bytes'):
                        if kk in o:
                            texts.add(o[kk])
                for v in o.values():
                    walk(v)
            elif isinstance(o, list):
                for v in o:
                    walk(v)
        for i in B.normal:
            walk(B.blocks[i]['stmts'])
            walk(B.blocks[i]['term'])
        names = set()
        for tx in texts:
            names |= set(re.findall(r'assert_vfs_[a-z_]+!', tx))
        bad = sorted(x for x in names if x != mname)
        ok = bool(names) and not bad
        rep.add('MACRO-NAME', 'macro:%s:name' % m, 'all panic messages of %s name %s' % (mname, mname), ok, '%s:%d' % (B.file, B.line),
                '' if ok else ('%s panics with a message naming %s' % (mname, bad) if bad else 'no message naming %s found' % mname))
        # ---- panic sites exist
        panics_ = [i for i, t in B.calls() if (t.get('callee') or '') in PANIC]
        # ---- requirements
        for k, alts in enumerate(spec['req']):
            esc = set()
            must = set()
            for alt in alts:
                if alt[0] == 'call':
                    must |= {i for i, t in B.calls() if vfs_call(t, alt[1])}
                else:
                    esc |= edges_for(B, alt)
            p = P.path_avoiding(B, [0], set(B.exits), must, esc)
            okr = p is None and (bool(must) or bool(esc))
            rule = 'CHECK' if spec['kind'] != 'acting' else 'ACT/POST'
            what = ' or '.join(('%s edge of %s' % ('TRUE' if a[1] else 'FALSE', a[2])) if a[0] == 'edge' else ('call of %s' % a[1] if a[0] == 'call' else 'the equal edge of a comparison') for a in alts)
            rep.add(rule, 'macro:%s:req%d' % (m, k), 'every returning path of %s passes %s' % (mname, what), okr, '%s:%d' % (B.file, B.line),
                    '' if okr else '%s can return without %s: it passes vacuously / skips the operation' % (mname, what),
                    [] if okr else ['path: ' + ' -> '.join('bb%d' % x for x in (p or [])[:14])])
        # ---- negative: the true edge of the predicate reaches only panic
        if spec['kind'] == 'negative':
            tedges = edges_for(B, ('edge', True, spec['pred']))
            okn = bool(tedges)
            for (d, tb) in tedges:
                if set(B.exits) & B.reachable_from(tb):
                    okn = False
            rep.add('CHECK', 'macro:%s:true-edge-panics' % m, 'when %s holds, %s cannot return (it panics)' % (spec['pred'], mname), okn, '%s:%d' % (B.file, B.line),
                    '' if okn else '%s returns although %s is true: it fails to reject a state that violates it' % (mname, spec['pred']))
        # positive: the false edge of the predicate reaches only panic
        if spec['kind'] == 'positive':
            for alts in spec['req']:
                for a in alts:
                    if a[0] == 'edge' and a[1] is True:
                        fedges = edges_for(B, ('edge', False, a[2]))
                        okp = bool(fedges) and not any(set(B.exits) & B.reachable_from(tb) for d, tb in fedges)
                        rep.add('CHECK', 'macro:%s:false-edge-panics:%s' % (m, a[2]), 'when %s is false, %s cannot return' % (a[2], mname), okp, '%s:%d' % (B.file, B.line),
                                '' if okp else '%s returns although %s is false' % (mname, a[2]))
        # ---- EQ: comparison callees feeding switches
        cmp_names = []
        for d in B.normal:
            t = B.term(d)
            if t['k'] == 'switch' and t.get('discr_ty') == 'bool':
                dl = op_local(t['discr'])
                if dl is None:
                    continue
                src, neg = bool_source(B, dl)
                if src is not None:
                    cmp_names.append((src.get('callee') or '').split('::')[-1])
        badc = sorted({c for c in cmp_names if COMPARE_BAD.search(c)})
        if spec.get('compare'):
            okc = not badc and (any(c in COMPARE_OK for c in cmp_names) or bool(edges_for(B, ('eq',))))
            rep.add('EQ', 'macro:%s:eq' % m, '%s compares the queried value with == / !=' % mname, okc, '%s:%d' % (B.file, B.line),
                    '' if okc else '%s decides with %s instead of equality: it accepts values that merely contain / end with the expected one' % (mname, badc or cmp_names))
        else:
            rep.add('EQ', 'macro:%s:eq' % m, '%s uses no containment-style comparison' % mname, not badc, '%s:%d' % (B.file, B.line), '' if not badc else 'uses %s' % badc)
        # ---- EQ (whole value): a primitive ==/!= that decides a branch compares the queried value itself, not a masked / shifted / reduced part of it
        from panics import sdesc_operand
        partial = []
        for bi, bj, st in B.assigns():
            rv = st['rv']
            if rv['k'] == 'binop' and rv['op'] in ('Eq', 'Ne'):
                for side in (rv['l'], rv['r']):
                    dsc = sdesc_operand(B, side)
                    if re.search(r'\b(BitAnd|BitOr|BitXor|Shr|Shl|Rem|Div)\(', dsc):
                        partial.append(dsc)
        rep.add('EQ', 'macro:%s:whole-value' % m, '%s compares whole values (no masked / shifted operand)' % mname, not partial, '%s:%d' % (B.file, B.line),
                '' if not partial else '%s compares only a part of the value (%s): states that differ in the remaining bits are accepted' % (mname, sorted(set(partial))))
        # every panic-capable macro has at least one panic site
        rep.add('CHECK', 'macro:%s:can-panic' % m, '%s has a failing (panic) exit' % mname, bool(panics_), '%s:%d' % (B.file, B.line),
                '' if panics_ else '%s never panics: it cannot report a violated assertion' % mname)
    rep.floor('CHECK', 'macros analysed', n, 19)
    import siteguard as _sg
    _t = engine.load_table('site_guards_harness.json')
    _sg.site_guard(rep, H, _sg.BodyOnly(H), _t, _t['_groups']['C20'])
    return engine.finish(
        rep, 'other', EXPLANATION,
        assumptions=['the probe functions expand each macro with a `&Vfs` receiver and plain path arguments (the common use); expansion hygiene makes other argument expressions equivalent',
                     'std::rt::panic_fmt diverges'],
        trusted_base=['rustc nightly macro expansion + MIR', 'extractor/ (format-template byte constants)', 'harness/macros/src/lib.rs', 'rules/p_C20.py'],
        checker_cmd='./check C20', seed=ctx['seed'])
