"""Whole-crate call graph over resolved callees with three conservative kinds of indirect edge:
 (1) generic instantiation: a call whose generic arguments mention a local closure / fn item may invoke it;
 (2) dyn dispatch: a call through `dyn Tr` may reach every local type unsize-coerced to that trait object
     anywhere in the crate (generic coercion sites are expanded through their instantiations);
 (3) drop glue: a Drop terminator on type T may run Drop::drop of T and of every type contained in T.
External callees are leaves."""
import re
from collections import defaultdict
from mir import Body, callee_of

FN_TRAITS = ('std::ops::Fn', 'std::ops::FnMut', 'std::ops::FnOnce')


def dyn_key(ty):
    """normalised text of the first `dyn ...` type inside a type string"""
    i = ty.find('dyn ')
    if i < 0:
        return None
    depth = 0
    j = i
    n = len(ty)
    while j < n:
        c = ty[j]
        if c == '-' and j + 1 < n and ty[j + 1] == '>':
            j += 2
            continue
        if c in '<(':
            depth += 1
        elif c in '>)':
            depth -= 1
            if depth < 0:
                break
        elif c == ',' and depth == 0:
            break
        j += 1
    s = ty[i:j].strip()
    s = s.replace(" + 'static", '')
    return s


def _pointee(ty):
    t = ty.strip()
    changed = True
    while changed:
        changed = False
        for pre in ('&mut ', '&', 'std::boxed::Box<', 'std::sync::Arc<', 'std::rc::Rc<', '*const ', '*mut '):
            if t.startswith(pre):
                t = t[len(pre):]
                if pre.endswith('<') and t.endswith('>'):
                    t = t[:-1]
                changed = True
    return t.strip()


class Edge:
    __slots__ = ('kind', 'bb', 'target', 'via')

    def __init__(self, kind, bb, target, via=''):
        self.kind = kind      # 'call' | 'generic' | 'dyn' | 'drop'
        self.bb = bb
        self.target = target  # local body name
        self.via = via

    def __repr__(self):
        return '%s@bb%d->%s' % (self.kind, self.bb, self.target)


class CallGraph:
    def __init__(self, F):
        self.F = F
        self._bodies = {}
        self.by_impl = defaultdict(list)     # (self_ty, trait) -> [body names]
        for b in F.d['bodies']:
            if 'impl_self' in b:
                self.by_impl[(b['impl_self'], b.get('impl_trait'))].append(b['name'])
        self.closure_upvars = {b['name']: b.get('upvars', []) for b in F.d['bodies'] if b['kind'] == 'Closure'}
        self._collect_dyn()
        self._edges = {}
        self._dropcache = {}

    def body(self, name):
        if name not in self._bodies:
            self._bodies[name] = Body(self.F.bodies[name])
        return self._bodies[name]

    def names(self):
        return [b['name'] for b in self.F.d['bodies'] if b['kind'] != 'Promoted']

    # ------------------------------------------------------------------ dyn
    def _collect_dyn(self):
        F = self.F
        self.dyn_cands = defaultdict(set)      # dyn key -> {('closure', name) | ('fn', name) | ('adt', path)}
        self.dyn_sites = defaultdict(list)     # dyn key -> [(body, from type)]
        generic_sites = defaultdict(set)       # body name -> {dyn key}
        for b in F.d['bodies']:
            for blk in b['blocks']:
                for s in blk['stmts']:
                    if s['k'] != 'assign' or s['rv']['k'] != 'cast' or 'Unsize' not in s['rv']['cast']:
                        continue
                    rv = s['rv']
                    key = dyn_key(rv['to'])
                    if key is None:
                        continue
                    ff = rv['from_facts']
                    if ff['dyn']:
                        continue  # dyn -> dyn upcast / re-coercion adds no candidate
                    self.dyn_sites[key].append((b['name'], rv['from']))
                    pointee = _pointee(rv['from'])
                    to_pointee = _pointee(rv['to'])
                    if not to_pointee.startswith('dyn ') and not to_pointee.startswith('(dyn '):
                        continue   # e.g. array -> slice unsizing
                    if pointee.startswith('{closure@') and ff['closures']:
                        self.dyn_cands[key].add(('closure', ff['closures'][0]))
                    elif re.match(r'^(for<[^>]*> )?(unsafe )?fn\(', pointee) and ff.get('fndefs'):
                        self.dyn_cands[key].add(('fn', ff['fndefs'][0]))
                    elif ff.get('params') and (pointee in ff['params'] or pointee.startswith('impl ')):
                        pass
                    else:
                        head = pointee.split('<')[0]
                        self.dyn_cands[key].add(('adt', head))
                    if pointee in ff.get('params', []) or pointee.startswith('impl '):
                        generic_sites[b['name']].add(key)
        # expand generic coercion sites through their instantiations
        self.generic_sites = generic_sites
        for b in F.d['bodies']:
            for blk in b['blocks']:
                t = blk['term']
                if t['k'] != 'call':
                    continue
                tgt = t.get('resolved') or t.get('callee')
                if tgt in generic_sites:
                    f = t['func']
                    for c in f.get('fn_args', []):
                        for key in generic_sites[tgt]:
                            kind = 'closure' if '{closure#' in c else 'fn'
                            self.dyn_cands[key].add((kind, c))
                    # type arguments that are local ADTs
                    for g in f.get('gargs', []):
                        if g in F.adts:
                            for key in generic_sites[tgt]:
                                self.dyn_cands[key].add(('adt', g))

    def dyn_targets(self, key, callee_trait):
        """local bodies a call of a `callee_trait` method on `dyn key` may reach"""
        out = []
        for kind, name in sorted(self.dyn_cands.get(key, ())):
            if kind in ('closure', 'fn'):
                if name in self.F.bodies:
                    out.append(name)
            else:
                for (st, tr), names in self.by_impl.items():
                    if st == name and (tr == callee_trait):
                        out.extend(names)
        return out

    # ----------------------------------------------------------------- drop
    def drop_targets(self, ty, facts, _seen=None):
        """local Drop::drop bodies that dropping a value of this type may run (structural closure)"""
        ck = ty
        if _seen is None and ck in self._dropcache:
            return self._dropcache[ck]
        top = _seen is None
        if _seen is None:
            _seen = set()
        out = []
        F = self.F
        for a in facts.get('adts', []):
            if a in _seen:
                continue
            _seen.add(a)
            for n in self.by_impl.get((a, 'std::ops::Drop'), []):
                out.append(n)
            # generic local ADTs: impl self type carries generics, match by prefix
            for (st, tr), names in self.by_impl.items():
                if tr == 'std::ops::Drop' and st.startswith(a + '<'):
                    out.extend(names)
            if a in F.adts:
                for v in F.adts[a]['variants']:
                    for f in v['fields']:
                        out.extend(self.drop_targets(f['ty'], f['facts'], _seen))
        for c in facts.get('closures', []):
            if c in _seen:
                continue
            _seen.add(c)
            for up in self.closure_upvars.get(c, []):
                out.extend(self.drop_targets(up['ty'], up['facts'], _seen))
        if facts.get('dyn'):
            # every dyn type inside: candidates' drop glue
            for key in self._dyn_keys(ty):
                if ('dyn', key) in _seen:
                    continue
                _seen.add(('dyn', key))
                for kind, name in sorted(self.dyn_cands.get(key, ())):
                    if kind == 'adt':
                        out.extend(self.drop_targets(name, {'adts': [name]}, _seen))
                    elif kind == 'closure':
                        for up in self.closure_upvars.get(name, []):
                            out.extend(self.drop_targets(up['ty'], up['facts'], _seen))
        res = sorted(set(out))
        if top:
            self._dropcache[ck] = res
        return res

    def _dyn_keys(self, ty):
        keys = []
        i = 0
        while True:
            j = ty.find('dyn ', i)
            if j < 0:
                break
            k = dyn_key(ty[j:])
            if k:
                keys.append(k)
            i = j + 4
        return keys

    # ---------------------------------------------------------------- edges
    def edges(self, name, cleanup=False):
        ck = (name, cleanup)
        if ck in self._edges:
            return self._edges[ck]
        B = self.body(name)
        F = self.F
        out = []
        rng = range(len(B.blocks)) if cleanup else sorted(B.normal)
        for i in rng:
            t = B.term(i)
            if t['k'] == 'call':
                res = t.get('resolved')
                dec = t.get('callee')
                direct = False
                if res in F.bodies:
                    out.append(Edge('call', i, res))
                    direct = True
                elif dec in F.bodies:
                    out.append(Edge('call', i, dec))
                    direct = True
                sf = t.get('self_facts')
                if sf and sf.get('dyn') and not direct:
                    key = dyn_key(t['self_ty'])
                    for tg in self.dyn_targets(key, t.get('callee_trait')):
                        out.append(Edge('dyn', i, tg, key))
                elif not direct and t['func']['k'] != 'const':
                    pass  # call through a fn pointer local: not present in rivia (checked by floor in rules)
                for c in t.get('callable_args', []):
                    if c in F.bodies:
                        out.append(Edge('generic', i, c))
            elif t['k'] == 'drop':
                for tg in self.drop_targets(t['ty'], t['ty_facts']):
                    out.append(Edge('drop', i, tg, t['ty']))
        self._edges[ck] = out
        return out

    def ext_calls(self, name):
        """(bb, callee path) of calls that leave the crate (or stay unresolved)"""
        B = self.body(name)
        out = []
        for i, t in B.calls():
            res = t.get('resolved')
            dec = t.get('callee')
            if res in self.F.bodies or dec in self.F.bodies:
                continue
            out.append((i, res or dec or '<indirect>', t))
        return out

    # ------------------------------------------------------------ NeverErr
    def never_err(self):
        """functions returning Result all of whose assignments to the return place are Ok(..) aggregates
        (or results of other NeverErr functions)"""
        F = self.F
        cand = {}
        for n in self.names():
            b = F.bodies[n]
            if not b.get('output', '').startswith('std::result::Result<'):
                continue
            cand[n] = True
        changed = True
        while changed:
            changed = False
            for n in list(cand):
                if not cand[n]:
                    continue
                B = self.body(n)
                ok = True
                for d in B.defs.get(0, []):
                    if d[0] == 'call':
                        c = callee_of(d[3])
                        if not (c in cand and cand[c]):
                            ok = False
                    else:
                        pl, rv = d[3], d[4]
                        if pl['p']:
                            ok = False
                        elif not (rv['k'] == 'aggregate' and rv.get('adt') == 'std::result::Result' and rv.get('variant') == 'Ok'):
                            ok = False
                if not B.defs.get(0):
                    ok = False
                if not ok:
                    cand[n] = False
                    changed = True
        return {n for n, v in cand.items() if v}

    def prune_never_err(self):
        """marks the Break arm of `?` on the result of a NeverErr call as infeasible; returns list of pruned sites"""
        ne = self.never_err()
        pruned = []
        for n in self.names():
            B = self.body(n)
            for i in range(len(B.blocks)):
                t = B.term(i)
                if t['k'] != 'switch':
                    continue
                dl = t['discr'].get('place', {}).get('l') if t['discr']['k'] in ('copy', 'move') else None
                if dl is None:
                    continue
                src = None
                for s in B.blocks[i]['stmts']:
                    if s['k'] == 'assign' and s['place']['l'] == dl and s['rv']['k'] == 'discr':
                        src = s['rv']['place']
                if src is None or src['p']:
                    continue
                ds = B.whole_defs(src['l'])
                if len(ds) != 1 or ds[0][0] != 'call':
                    continue
                bt = ds[0][3]
                if callee_of(bt) != '<std::result::Result<T, E> as std::ops::Try>::branch':
                    continue
                al = bt['args'][0].get('place', {}).get('l')
                ads = B.whole_defs(al) if al is not None else []
                if len(ads) != 1 or ads[0][0] != 'call':
                    continue
                c = callee_of(ads[0][3])
                if c in ne:
                    for v, tb in t['targets']:
                        if v == '1':
                            B.infeasible.add((i, tb))
                            pruned.append((n, B.loc(i), c))
            if B.infeasible:
                B.reset()
        self._edges = {}
        return ne, pruned

    # ------------------------------------------------------------ summaries
    def closure(self, seeds, edge_filter=None):
        """least fixpoint: set of bodies from which some seed is reachable. seeds: iterable of body names.
        edge_filter(caller, edge) -> bool to keep an edge."""
        rev = defaultdict(set)
        for n in self.names():
            for e in self.edges(n):
                if edge_filter and not edge_filter(n, e):
                    continue
                rev[e.target].add(n)
        seen = set(seeds)
        work = list(seeds)
        while work:
            x = work.pop()
            for p in rev.get(x, ()):
                if p not in seen:
                    seen.add(p)
                    work.append(p)
        return seen

    def reach_path(self, start, goal_pred, edge_filter=None, limit=100000):
        """a witness call path (list of (body, edge)) from start to a body satisfying goal_pred"""
        from collections import deque
        prev = {start: None}
        dq = deque([start])
        while dq:
            x = dq.popleft()
            if goal_pred(x):
                path = []
                cur = x
                while prev[cur] is not None:
                    p, e = prev[cur]
                    path.append((p, e))
                    cur = p
                return list(reversed(path)), x
            for e in self.edges(x):
                if edge_filter and not edge_filter(x, e):
                    continue
                if e.target not in prev:
                    prev[e.target] = (x, e)
                    dq.append(e.target)
        return None, None
