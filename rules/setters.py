"""SETTER (builder methods assign exactly their documented fields), CHAIN (listing helpers' Entries configuration),
FILTER-DOM (every yielded entry passed the filter), SIBLING helpers."""
import re
from collections import defaultdict
from mir import Body, callee_of, op_local, op_place
from panics import sdesc_operand, sdesc_local, describe_local
import engine

ENTRIES = 'sys::fs::entries::Entries'
ENTRIES_ITER = 'sys::fs::entries::EntriesIter'


def setter_effects(B):
    """field path (of self) -> sorted list of values assigned, and list of local builder calls made on self"""
    eff = defaultdict(set)
    for i, j, s in B.assigns():
        pl = s['place']
        if pl['l'] != 1 or not pl['p']:
            continue
        path = '.'.join(e.get('name', str(e.get('i'))) for e in pl['p'] if e['k'] == 'field')
        if not path:
            continue
        rv = s['rv']
        if rv['k'] == 'use':
            v = sdesc_operand(B, rv['op'])
        elif rv['k'] == 'aggregate':
            v = '%s(%s)' % (rv.get('variant') or rv['agg'], ','.join(sdesc_operand(B, o) for o in rv['ops']))
        else:
            v = rv['k']
        eff[path].add(v)
    calls = []
    for i, t in B.calls():
        c = callee_of(t) or ''
        calls.append(c.split('::')[-1] if not c.startswith('<std::') and not c.startswith('std::') else 'std:' + c.split('::')[-1])
    return {k: sorted(v) for k, v in eff.items()}, calls


def setter(rep, F, cg, table, rule='SETTER'):
    """table: method path -> {field: [allowed values...]} ; exact match required (no other field of self may be assigned)"""
    rep.rule(rule, 'each builder method assigns exactly its documented field(s) of self with the documented source (its parameter or a constant) and no '
             'other field; sort-flag builders additionally install the name comparison through Entries::sort')
    n = 0
    for m, spec in sorted(table.items()):
        if m not in F.bodies:
            rep.add(rule, 'setter:%s' % m, 'builder %s exists' % m, False, detail='builder method %s not found (renamed or removed)' % m)
            continue
        B = cg.body(m)
        eff, calls = setter_effects(B)
        want = spec['fields']
        n += 1
        probs = []
        for f, vals in want.items():
            got = eff.get(f)
            if got is None:
                probs.append('does not assign %s' % f)
            elif sorted(got) != sorted(vals):
                probs.append('assigns %s = %s, documented %s' % (f, got, vals))
        for f in eff:
            if f not in want:
                probs.append('also assigns %s = %s' % (f, eff[f]))
        wc = spec.get('calls')
        if wc is not None:
            lc = [c for c in calls if not c.startswith('std:')]
            if sorted(lc) != sorted(wc):
                probs.append('calls %s, documented %s' % (lc, wc))
        rep.add(rule, 'setter:%s' % m, '%s sets %s' % (m, ', '.join('%s=%s' % (k, '|'.join(v)) for k, v in want.items())), not probs,
                '%s:%d' % (B.file, B.line), '' if not probs else '%s %s' % (m, '; '.join(probs)))
    rep.floor(rule, 'builder methods', n, len(table) - 1)


def builder_chain(F, B, bb):
    """walk back from the receiver of the call at bb through Entries builder calls; returns (root callee, [(builder, [const args])...])"""
    t = B.term(bb)
    cur = t['args'][0]
    chain = []
    root = None
    use_bb = bb
    for _ in range(40):
        l = op_local(cur)
        if l is None:
            break
        ds = B.whole_defs(l)
        if len(ds) > 1:
            # a `mut` variable re-assigned in straight-line code: take the closest definition dominating the use
            dom_defs = [d for d in ds if B.dominates(d[1], use_bb) and not (d[0] == 'call' and d[1] == use_bb)]
            if not dom_defs:
                break
            best = max(dom_defs, key=lambda d: (len(B.dom[d[1]]), d[2] if d[0] == 'assign' else 10 ** 6))
            # no other definition may lie between the chosen one and the use
            from panics import _can_reach
            between = B.reachable_from(best[1]) & _can_reach(B, use_bb)
            if any(d is not best and d[1] in between and d[1] != use_bb and d[1] != best[1] for d in ds):
                break
            ds = [best]
        if len(ds) != 1:
            break
        d = ds[0]
        use_bb = d[1]
        if d[0] == 'call':
            ct = d[3]
            c = callee_of(ct) or ''
            if c.endswith('Try>::branch') or c.endswith('IntoIterator>::into_iter'):
                cur = ct['args'][0]
                continue
            b = F.bodies.get(c)
            if b is not None and b.get('impl_self') == ENTRIES and not b.get('impl_trait') and ct['args']:
                chain.append((c.split('::')[-1], [sdesc_operand(B, a) for a in ct['args'][1:]]))
                cur = ct['args'][0]
                continue
            root = c
            break
        rv = d[4]
        if rv['k'] == 'use':
            p = op_place(rv['op'])
            if p is None:
                break
            if p['p']:
                # payload of Try::branch: (x as Continue).0
                cur = {'k': 'copy', 'place': {'l': p['l'], 'p': []}}
            else:
                cur = rv['op']
            continue
        if rv['k'] in ('ref',):
            cur = {'k': 'copy', 'place': {'l': rv['place']['l'], 'p': []}}
            continue
        break
    chain.reverse()
    return root, chain


def chain(rep, F, cg, table, rule='CHAIN', ctors=None):
    """table: helper body name -> {'root_suffix': ..., 'chain': [[builder, [args]]...]} (order-insensitive set of builder calls)"""
    rep.rule(rule, 'the Entries value iterated by each listing helper was produced by the backend\'s entries constructor followed by exactly the builder '
             'calls and constants the property states: paths/dirs/files: min_depth(1) max_depth(1) sort_by_name [+dirs()/files()]; all_*: min_depth(1) '
             'sort_by_name [+dirs()/files()] ("exclude the argument" = min_depth(1), "name-sorted" = sort_by_name)')
    n = 0
    for name, spec in sorted(table.items()):
        if name not in F.bodies:
            rep.add(rule, 'chain:%s' % name, 'listing helper %s exists' % name, False, detail='helper %s not found' % name)
            continue
        B = cg.body(name)
        sites = [i for i, t in B.calls() if (callee_of(t) or '') == '<%s as std::iter::IntoIterator>::into_iter' % ENTRIES]
        if len(sites) != 1:
            rep.add(rule, 'chain:%s' % name, '%s iterates exactly one Entries' % name, False, '%s:%d' % (B.file, B.line),
                    '%d into_iter sites found' % len(sites))
            continue
        root, ch = builder_chain(F, B, sites[0])
        n += 1
        want = sorted((b, list(a)) for b, a in spec['chain'])
        got = sorted((b, list(a)) for b, a in ch)
        ok_root = root is not None and root.endswith(spec['root_suffix'])
        if not ok_root and ctors is not None and root in ctors and spec['backend'] in root:
            ok_root = True   # any closure-free Entries constructor of the same backend (by role, not by name)
        ok = ok_root and want == got
        rep.add(rule, 'chain:%s' % name, '%s iterates %s().%s' % (name.split('::')[-1], spec['root_suffix'], '.'.join('%s(%s)' % (b, ','.join(a)) for b, a in want)),
                ok, B.loc(sites[0]), '' if ok else '%s iterates %s().%s — documented configuration is %s().%s' % (
                    name, root, '.'.join('%s(%s)' % (b, ','.join(a)) for b, a in got), spec['root_suffix'], '.'.join('%s(%s)' % (b, ','.join(a)) for b, a in want)))
    rep.floor(rule, 'listing helpers', n, len(table) - 1)


# ====================================================================================== FILTER-DOM
def filter_dom(rep, F, cg, rule='FILTER-DOM'):
    rep.rule(rule, 'every place where EntriesIter builds an Ok(entry) item (a yield) is reached only through the None arm of the `filter` lookup or the '
             'accepting edge of a call of the filter closure on that path, or the entry comes from a helper of EntriesIter with that property; '
             'so no entry a filter rejects is ever yielded (deferred directories included)')
    from atomic import PairCheck, Mutation
    filt_key = None
    for key in cg.dyn_cands:
        if 'FnMut' in key and 'VfsEntry' in key and key.rstrip().endswith('bool'):
            filt_key = key
    if filt_key is None:
        rep.add(rule, 'filterdom:anchor', 'the filter closure type exists', False, detail='no dyn FnMut(&VfsEntry) -> bool coercion found')
        return
    bodies = [n for n in cg.names() if F.bodies[n].get('impl_self') == ENTRIES_ITER]
    gate = {}      # fn -> True if every entry it hands out (Some(entry) / Ok(entry)) is filter guarded

    def escapes(B):
        esc = set()
        for d in B.normal:
            t = B.term(d)
            if t['k'] != 'switch':
                continue
            dl = op_local(t['discr'])
            if dl is None:
                continue
            # None arm of the filter lookup: discriminant of a place ending in .filter
            for s in B.blocks[d]['stmts']:
                if s['k'] == 'assign' and s['place']['l'] == dl and s['rv']['k'] == 'discr':
                    pl = s['rv']['place']
                    npl = B.norm_place(pl).rstrip(')')
                    if npl.endswith('.filter'):
                        for v, tb in t['targets']:
                            if v == '0':
                                esc.add((d, tb))
                        if not any(v == '0' for v, tb in t['targets']):
                            esc.add((d, t['otherwise']))
            if t.get('discr_ty') == 'bool':
                # bool from a call through the filter closure (possibly negated)
                cur = dl
                neg = False
                for _ in range(4):
                    ds = B.whole_defs(cur)
                    if len(ds) != 1:
                        break
                    dd = ds[0]
                    if dd[0] == 'call':
                        ct = dd[3]
                        from callgraph import dyn_key
                        if ct.get('self_facts', {}).get('dyn') and dyn_key(ct.get('self_ty') or '') == filt_key:
                            false_t = [tb for v, tb in t['targets'] if v == '0']
                            accept = t['otherwise'] if not neg else (false_t[0] if false_t else None)
                            if accept is not None:
                                esc.add((d, accept))
                        break
                    rv = dd[4]
                    if rv['k'] == 'unop' and rv['op'] == 'Not':
                        neg = not neg
                        cur = op_local(rv['a'])
                    elif rv['k'] == 'use':
                        cur = op_local(rv['op'])
                    else:
                        break
                    if cur is None:
                        break
        return esc

    def entry_sites(B):
        """(bb, operand) where an Ok(entry) / Some(entry) value of type VfsEntry is built"""
        out = []
        for i, j, s in B.assigns():
            rv = s['rv']
            if rv['k'] == 'aggregate' and rv.get('variant') in ('Ok', 'Some') and len(rv['ops']) == 1:
                o = rv['ops'][0]
                l = op_local(o)
                if l is not None and B.local_ty(l) == 'sys::fs::entry::VfsEntry':
                    out.append((i, o, rv.get('variant')))
        return out

    # fixpoint: a site is fine when guarded on every path, or when its entry comes from a gate function
    status = {}
    changed = True
    rounds = 0
    P = None
    while changed and rounds < 5:
        changed = False
        rounds += 1
        for n in bodies:
            B = cg.body(n)
            esc = escapes(B)
            res = []
            for (bb, o, var) in entry_sites(B):
                def transparent(t):
                    return None
                roots = B.op_origins(o)
                from_gate = [r for r in roots if r[0] == 'call' and gate.get(callee_of(B.term(r[1])))]
                other_calls = [r for r in roots if r[0] == 'call' and not gate.get(callee_of(B.term(r[1])))]
                args = [r for r in roots if r[0] == 'arg']
                if from_gate and not other_calls and not args:
                    res.append((bb, True, 'entry comes from filter gate %s' % callee_of(B.term(from_gate[0][1]))))
                    continue
                # path from entry to the site avoiding every escape edge?
                from collections import deque
                prev = {0: None}
                dq = deque([0])
                found = None
                while dq:
                    x = dq.popleft()
                    if x == bb:
                        found = x
                        break
                    for nx in B.succs(x):
                        if (x, nx) in esc or nx in prev:
                            continue
                        prev[nx] = x
                        dq.append(nx)
                if found is None:
                    res.append((bb, True, 'dominated by the filter test'))
                else:
                    path = []
                    cur = found
                    while cur is not None:
                        path.append(cur)
                        cur = prev[cur]
                    res.append((bb, False, 'path avoiding the filter: ' + ' -> '.join('bb%d' % x for x in reversed(path[-12:]))))
            status[n] = res
            g = bool(res) and all(ok for bb, ok, why in res)
            # a function with no entry site but returning entries is not a gate
            if gate.get(n) != g:
                gate[n] = g
                changed = True
    nsites = 0
    for n in bodies:
        B = cg.body(n)
        for k, (bb, ok, why) in enumerate(status.get(n, [])):
            nsites += 1
            rep.add(rule, 'filterdom:%s#%d' % (n, k), 'entry handed out by %s at this site has passed the filter' % n, ok, B.loc(bb),
                    '' if ok else '%s yields an entry that never went through the filter (%s): a filtered traversal can return entries the filter rejects' % (n, why),
                    [why])
    rep.floor(rule, 'entry yield / hand-out sites in EntriesIter', nsites, 2)


def filter_install(rep, F, cg, rule='FILTER-INSTALL'):
    """into_iter installs is_file for `files` and is_dir for `dirs`"""
    rep.rule(rule, 'Entries::into_iter installs a filter closure that calls Entry::is_file under the `files` flag and one that calls Entry::is_dir under the '
             '`dirs` flag (and none otherwise)')
    from panics import known_facts
    name = '<%s as std::iter::IntoIterator>::into_iter' % ENTRIES
    if name not in F.bodies:
        rep.add(rule, 'filterinstall:anchor', 'Entries::into_iter exists', False, detail='anchor missing')
        return
    B = cg.body(name)
    found = {}
    for i, j, s in B.assigns():
        rv = s['rv']
        if rv['k'] == 'cast' and 'Unsize' in rv['cast'] and rv['from_facts']['closures']:
            cl = rv['from_facts']['closures'][0]
            if cl not in F.bodies:
                continue
            callee_names = {(t.get('callee') or '').split('::')[-1] for _, t in Body(F.bodies[cl]).calls()}
            facts = known_facts(B, i)
            flags = [d.split('.')[-1] for d, tr in facts if tr and ('.files' in d or '.dirs' in d)]
            found[cl] = (callee_names, flags, B.loc(i))
    want = {'files': 'is_file', 'dirs': 'is_dir'}
    seen_flags = set()
    for cl, (cn, flags, loc) in sorted(found.items()):
        ok = False
        for fl in flags:
            if fl in want and want[fl] in cn and not (set(want.values()) - {want[fl]}) & cn:
                ok = True
                seen_flags.add(fl)
        rep.add(rule, 'filterinstall:%s' % cl.split('::')[-1], 'closure %s installed under %s calls the matching kind query' % (cl, flags), ok, loc,
                '' if ok else 'filter closure installed under flag(s) %s calls %s: the kind filter selects the wrong entries' % (flags, sorted(cn)))
    for fl in want:
        if fl not in seen_flags:
            rep.add(rule, 'filterinstall:missing:%s' % fl, 'a filter is installed for the `%s` flag' % fl, False, '%s:%d' % (B.file, B.line),
                    'into_iter installs no %s filter under the `%s` flag' % (want[fl], fl))


def sibling_calls(rep, rule, key, F, cg, fa, fb, selector, rename, what):
    """the calls selected in the two sibling functions have identical structural descriptions after backend renaming"""
    from panics import skey_call
    for f in (fa, fb):
        if f not in F.bodies:
            rep.add(rule, key, '%s exists' % f, False, detail='sibling %s not found' % f)
            return
    A, Bb = cg.body(fa), cg.body(fb)

    def sel(B):
        out = []
        for i, t in B.calls():
            if selector(t):
                s = skey_call(B, t)
                for a, b in rename:
                    s = re.sub(a, b, s)
                out.append(s)
        return sorted(out)
    sa, sb = sel(A), sel(Bb)
    ok = sa == sb and bool(sa)
    rep.add(rule, key, what, ok, '%s:%d' % (A.file, A.line), '' if ok else '%s and %s differ: %s vs %s' % (fa.split('::')[-1], fb, sa, sb), [str(sa)])


def traversal_setup(rep, F, cg):
    from panics import known_facts
    MEMFS = 'sys::fs::memfs::vfs::Memfs'
    STDFS = 'sys::fs::stdfs::Stdfs'
    rep.rule('TRAVERSAL-SETUP', '_chmod iterates entries(path).contents_first().max_depth(R).follow(opts.follow).dirs_first().pre_op(..) and _chown iterates '
             'entries(path).max_depth(R).follow(opts.follow), where R is usize::MAX when opts.recursive and 0 otherwise — identically on both backends')
    want = {'_chmod': ['contents_first', 'dirs_first', 'follow', 'max_depth', 'pre_op'], '_chown': ['follow', 'max_depth']}
    chains = {}
    for be, ty in (('memfs', MEMFS), ('stdfs', STDFS)):
        for h in ('_chmod', '_chown'):
            fn = '<%s>::%s' % (ty, h)
            if fn not in F.bodies:
                rep.add('TRAVERSAL-SETUP', 'setup:%s:%s' % (be, h), '%s exists' % fn, False, detail='anchor missing')
                continue
            B = cg.body(fn)
            sites = [i for i, tt in B.calls() if (callee_of(tt) or '') == '<%s as std::iter::IntoIterator>::into_iter' % ENTRIES]
            if len(sites) != 1:
                rep.add('TRAVERSAL-SETUP', 'setup:%s:%s' % (be, h), '%s iterates one Entries' % fn, False, detail='%d into_iter sites' % len(sites))
                continue
            root, ch = builder_chain(F, B, sites[0])
            names = sorted(b for b, a in ch)
            args = {b: a for b, a in ch}
            ok = names == want[h]
            fa = args.get('follow', [''])[0]
            ok_follow = fa.endswith('.follow') and fa.startswith('arg')
            # max_depth argument: a local assigned 0 / usize::MAX under the recursive switch
            md_ok = False
            for i, tt in B.calls():
                if (callee_of(tt) or '').endswith('Entries>::max_depth'):
                    l = op_local(tt['args'][1])
                    for _ in range(4):      # through plain copies to the variable assigned in the two arms
                        dd = B.whole_defs(l)
                        if len(dd) == 1 and dd[0][0] == 'assign' and dd[0][4]['k'] == 'use' and op_local(dd[0][4]['op']) is not None:
                            l = op_local(dd[0][4]['op'])
                        else:
                            break
                    vals = {}
                    for d in B.defs.get(l, []):
                        if d[0] == 'assign' and d[4]['k'] == 'use' and d[4]['op']['k'] == 'const':
                            v = d[4]['op'].get('int')
                            facts = known_facts(B, d[1])
                            rec = [tr for ds, tr in facts if ds.endswith('.recursive')]
                            vals[v] = rec[0] if rec else None
                    md_ok = vals == {'18446744073709551615': True, '0': False}
            chains[(be, h)] = (names, fa.split('.')[-1], md_ok)
            rep.add('TRAVERSAL-SETUP', 'setup:%s:%s' % (be, h), '%s configures its traversal as documented' % fn, ok and ok_follow and md_ok, B.loc(sites[0]),
                    '' if (ok and ok_follow and md_ok) else '%s builds %s (follow from %s, max_depth by recursive: %s); documented: %s, follow(opts.follow), max_depth(recursive ? MAX : 0)' % (fn, names, fa, md_ok, want[h]))
    for h in ('_chmod', '_chown'):
        a, b = chains.get(('memfs', h)), chains.get(('stdfs', h))
        ok = a is not None and a == b
        rep.add('SIBLING', 'sibling:%s' % h, 'Memfs::%s and Stdfs::%s configure the traversal identically' % (h, h), ok, '', '' if ok else '%s vs %s' % (a, b))
    rep.rule('SIBLING', 'mirrored functions of the two backends agree on the compared elements')


def mode_selection(rep, F, cg, rule='MODE-SEL'):
    """exhaustive evaluation (8 input combinations) of the pure boolean slice that derives dir_mode / file_mode from CopyOpts"""
    import itertools, boolslice
    from mir import place_key
    rep.rule(rule, 'in both _copy implementations the pure slice computing the two Option<u32> mode selections from (cp.mode is Some, cp.cdirs, cp.cfiles) is '
             'evaluated for all 8 input combinations: one selection is Some exactly when mode && (cdirs || !cfiles) and flows to directory creation, the '
             'other exactly when mode && (cfiles || !cdirs) and flows to the file mode; both backends have the same two tables')
    want_d = {k: ('Some' if k[0] and (k[1] or not k[2]) else 'None') for k in itertools.product((0, 1), repeat=3)}
    want_f = {k: ('Some' if k[0] and (k[2] or not k[1]) else 'None') for k in itertools.product((0, 1), repeat=3)}
    for be, fn in (('memfs', '<sys::fs::memfs::vfs::Memfs>::_copy'), ('stdfs', '<sys::fs::stdfs::Stdfs>::_copy')):
        if fn not in F.bodies:
            rep.add(rule, 'modesel:%s' % be, '%s exists' % fn, False, detail='anchor missing')
            continue
        B = cg.body(fn)
        ps = [l for l in range(1, B.nargs + 1) if B.local_ty(l) == 'sys::fs::copy::CopyOpts']
        if not ps:
            rep.add(rule, 'modesel:%s' % be, '%s takes the CopyOpts by value' % fn, False, '%s:%d' % (B.file, B.line), 'no CopyOpts parameter found')
            continue
        P = ps[0]
        start = None
        for i in sorted(B.normal, key=lambda x: len(B.dom[x])):
            for st in B.blocks[i]['stmts']:
                if st['k'] == 'assign' and st['rv']['k'] == 'discr' and place_key(st['rv']['place']) == '_%d.mode' % P and start is None:
                    start = i
        if start is None:
            rep.add(rule, 'modesel:%s' % be, '%s branches on cp.mode' % fn, False, '%s:%d' % (B.file, B.line), 'no read of discriminant(cp.mode)')
            continue
        tables = {}
        for m, cd, cf in itertools.product((0, 1), repeat=3):
            env, stop = boolslice.run(B, start, {'discr:_%d.mode' % P: m, '_%d.cdirs' % P: cd, '_%d.cfiles' % P: cf})
            for l, v in env.items():
                if B.local_ty(l) == 'std::option::Option<u32>' and v in ('Some', 'None'):
                    tables.setdefault(l, {})[(m, cd, cf)] = v
        full = {l: t for l, t in tables.items() if len(t) == 8}
        d_locals = [l for l, t in full.items() if t == want_d]
        f_locals = [l for l, t in full.items() if t == want_f]
        shown = {('_%d' % l): ''.join('S' if t[k] == 'Some' else 'N' for k in sorted(t)) for l, t in full.items()}
        ok = len(d_locals) >= 1 and len(f_locals) >= 1
        # roles: the directory selection reaches the mkdir call, the file selection the file-mode write
        role_ok = True
        why = ''
        if ok:
            def reaches(src_locals, pred):
                for i, t in B.calls():
                    if pred(t):
                        for a in t['args']:
                            for r in B.op_origins(a):
                                if r[0] == 'agg':
                                    pass
                            l0 = op_local(a)
                        # provenance through Option::or / unwrap_or / the `if let Some(mode)` payload
                        roots = set()
                        for a in t['args']:
                            roots |= _locals_feeding(B, a)
                        if roots & set(src_locals):
                            return True
                return False
            d_ok = reaches(d_locals, lambda t: (callee_of(t) or '').split('::')[-1] in ('_mkdir_m', 'mkdir_m'))
            f_ok = reaches(f_locals, lambda t: (callee_of(t) or '').split('::')[-1] in ('set_mode', 'from_mode'))
            role_ok = d_ok and f_ok
            why = 'dir selection reaches mkdir: %s, file selection reaches the file mode write: %s' % (d_ok, f_ok)
        rep.add(rule, 'modesel:%s' % be, '%s selects the dir / file modes as documented (truth tables over mode, cdirs, cfiles)' % fn, ok and role_ok, B.loc(start),
                '' if (ok and role_ok) else '%s computes the selections %s (order mode,cdirs,cfiles = 000..111); documented: dirs NNNNSNSS, files NNNNSSNS; %s' % (fn, shown, why),
                [str(shown)])


def _locals_feeding(B, o, depth=0, seen=None):
    """locals from which the operand's value may derive (through moves, Option::or / unwrap_or / map, payload projections)"""
    if seen is None:
        seen = set()
    p = op_place(o)
    if p is None:
        return seen
    l = p['l']
    if l in seen or depth > 12:
        return seen
    seen.add(l)
    for d in B.defs.get(l, []):
        if d[0] == 'call':
            for a in d[3]['args']:
                _locals_feeding(B, a, depth + 1, seen)
        else:
            rv = d[4]
            if rv['k'] in ('use', 'cast'):
                _locals_feeding(B, rv['op'], depth + 1, seen)
            elif rv['k'] in ('ref', 'copyforderef', 'discr'):
                _locals_feeding(B, {'k': 'copy', 'place': rv['place']}, depth + 1, seen)
            elif rv['k'] == 'aggregate':
                for a in rv['ops']:
                    _locals_feeding(B, a, depth + 1, seen)
    return seen


def copy_parent_mode(rep, F, cg, rule='PARENT-MODE'):
    import re
    from panics import skey_call, sdesc_operand
    rep.rule(rule, 'when a file is copied to a destination whose parent directory is missing, both _copy implementations create that parent with the selected '
             'directory mode or else with the mode of the SOURCE file\'s parent directory: a mode(<entry of dir(path(src))>) value feeds the mkdir of dir(dst_path)')
    res = {}
    for be, fn in (('memfs', '<sys::fs::memfs::vfs::Memfs>::_copy'), ('stdfs', '<sys::fs::stdfs::Stdfs>::_copy')):
        if fn not in F.bodies:
            rep.add(rule, 'parentmode:%s' % be, '%s exists' % fn, False, detail='anchor missing')
            continue
        B = cg.body(fn)
        src_parent_modes = [t['dest']['l'] for i, t in B.calls() if re.match(r'^mode\(.*dir\(path\(', skey_call(B, t))]
        ok = False
        for i, t in B.calls():
            k = skey_call(B, t)
            if re.match(r'^_?mkdir_m\(', k) and re.search(r'dir\(var<PathBuf>\)\?', k):
                feeding = set()
                for a in t['args']:
                    feeding |= _locals_feeding(B, a)
                if feeding & set(src_parent_modes):
                    ok = True
        res[be] = ok
        rep.add(rule, 'parentmode:%s' % be, '%s creates a missing destination parent with the source parent\'s mode when no directory mode is selected' % fn, ok,
                '%s:%d' % (B.file, B.line), '' if ok else '%s does not pass the mode of the source file\'s parent directory to the mkdir of the destination parent: auto-created directories get another mode than on the other backend' % fn)
