"""Virtual inlining of *new* helper functions.

The frozen tables (err_guards, site_guards, stdfs_io) describe the functions of the confirmed tree.  When a later tree moves part of such a function into a
helper that did not exist then (its name is not in tables/defs.json), the helper's sites are attributed to the calling frozen function: the helper's own branch
facts have its parameters replaced by the structural descriptions of the actual arguments and are joined with the facts that hold at the call."""
import json, os, re
from mir import callee_of
from panics import sdesc_operand

_frozen = None


def frozen_defs():
    global _frozen
    if _frozen is None:
        import renames
        try:
            with open(renames.TABLE) as f:
                _frozen = set(json.load(f))
        except OSError:
            _frozen = set()
    return _frozen


def is_new_helper(F, name):
    b = F.bodies.get(name)
    return bool(b) and b['kind'] in ('Fn', 'AssocFn') and bool(frozen_defs()) and name not in frozen_defs()


_ARG = re.compile(r'\barg(\d+)\b')


def subst(s, amap):
    if not amap:
        return s
    return _ARG.sub(lambda m: amap.get(int(m.group(1)), m.group(0)), s)


def fact_strings(pairs, canon, amap=None):
    out = set()
    for d, v in pairs:
        if v == 'Ok':
            continue          # `X = Ok` is implied by every later use of X's payload (and is what `?` establishes silently)
        out.add('%s=%s' % canon(subst(d, amap), v))
    return out


def walk_calls(F, cg, fn, facts_at, canon, amap=None, prefix=(), depth=0, seen=()):
    """yields (B, bb, term, facts, argument map of the inlined helper or None) for every call of fn and, recursively, of the new helpers it calls; facts is a sorted list of 'desc=value' strings"""
    B = cg.body(fn)
    for i, t in B.calls():
        c = t.get('resolved') or t.get('callee') or callee_of(t) or ''
        here = sorted(set(prefix) | fact_strings(facts_at(B, i), canon, amap))
        if depth < 3 and c not in seen and c != fn and is_new_helper(F, c):
            sub = {k + 1: subst(sdesc_operand(B, a), amap) for k, a in enumerate(t['args'])}
            for x in walk_calls(F, cg, c, facts_at, canon, sub, here, depth + 1, tuple(seen) + (fn,)):
                yield x
            continue
        yield B, i, t, here, (amap if depth > 0 else None)
