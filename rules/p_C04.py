"""C04 — Memfs operations are atomic and deadlock-free under concurrent use.
Decided: LOCK-OWN, LOCK-NEST (+FS-NONE, Entries typestate), LOCK-ONCE, SNAPSHOT, NO-PANIC-UNDER-GUARD.
Not decided: that results equal those of some sequential order (linearizability of values)."""
import engine, locks, panics
from mir import callee_of

TRAIT = 'sys::fs::vfs::VirtualFileSystem'
MEMFS = 'sys::fs::memfs::vfs::Memfs'
# the property's own list of single-step operations (public trait method names)
SINGLE_STEP = ['mkdir_p', 'mkdir_m', 'mkfile', 'remove', 'remove_all', 'move_p', 'copy', 'symlink', 'set_cwd', 'append_all', 'write_all',
               'read', 'read_all', 'read_lines',
               'abs', 'cwd', 'root', 'entry', 'exists', 'gid', 'uid', 'owner', 'mode', 'is_exec', 'is_dir', 'is_file', 'is_readonly',
               'is_symlink', 'is_symlink_dir', 'is_symlink_file', 'readlink', 'readlink_abs',
               'paths', 'dirs', 'files', 'all_paths', 'all_dirs', 'all_files', 'entries']
FORBIDDEN_IN_SNAPSHOT = (MEMFS, 'sys::fs::memfs::vfs::MemfsGuard', 'sys::fs::memfs::vfs::MemfsInner', 'std::sync::RwLock',
                         'std::sync::RwLockReadGuard', 'std::sync::RwLockWriteGuard')

EXPLANATION = (
    "Decided statically on MIR + call graph of the current tree: (1) deadlock freedom: the crate has one lock; it is not nameable outside "
    "the crate (LOCK-OWN); in every program region where a guard is live no call, dynamic call or destructor may acquire the lock or block "
    "(LOCK-NEST, with FS-NONE proving stored files carry no back reference and the Entries typestate proving the traversals run under a guard "
    "have no pre_op) — so hold-and-wait is impossible; (2) one critical section per single-step operation of the property's list (LOCK-ONCE); "
    "(3) traversal closures/iterators capture a snapshot, never the filesystem (SNAPSHOT); (4) no undischarged panic site while a guard is held "
    "(NO-PANIC-UNDER-GUARD, shared with C12). NOT decided: that the values returned equal those of some sequential order — LOCK-ONCE is the "
    "structural necessary half of atomicity only.")


def type_reaches(F, ty, facts, forbidden, seen=None):
    """does a value of this type structurally contain one of the forbidden ADTs (through local struct fields)?"""
    if seen is None:
        seen = set()
    for a in facts.get('adts', []):
        if a in forbidden:
            return a
        if a in seen:
            continue
        seen.add(a)
        if a in F.adts:
            for v in F.adts[a]['variants']:
                for f in v['fields']:
                    r = type_reaches(F, f['ty'], f['facts'], forbidden, seen)
                    if r:
                        return '%s (via %s.%s)' % (r, a.split('::')[-1], f['name'])
    return None


def lock_own(rep, F, A):
    rep.rule('LOCK-OWN', 'the RwLock API is called only from `impl Memfs`; the lock field, MemfsGuard, MemfsInner and every function returning a guard '
             'are not visible outside the crate, so no user code can hold the lock')
    for (n, i, c) in A.L.prim_sites:
        b = F.bodies[n]
        ok = b.get('impl_self') == MEMFS
        rep.add('LOCK-OWN', 'lock-api:%s' % n, 'RwLock API call %s happens inside impl Memfs' % c, ok, A.cg.body(n).loc(i),
                '' if ok else '%s calls %s but is not a method of Memfs' % (n, c))
    rep.floor('LOCK-OWN', 'RwLock API call sites', len(A.L.prim_sites), 3)
    memfs = F.adts[MEMFS]
    for v in memfs['variants']:
        for f in v['fields']:
            ok = f['vis'] != 'pub'
            rep.add('LOCK-OWN', 'field:Memfs.%s' % f['name'], 'field Memfs.%s (the Arc<RwLock<..>>) is not public' % f['name'], ok,
                    '%s:%d' % (memfs['file'], memfs['line']), '' if ok else 'the lock field of Memfs is pub: user code can lock it')
    for a in ('sys::fs::memfs::vfs::MemfsGuard', 'sys::fs::memfs::vfs::MemfsInner'):
        ad = F.adts.get(a)
        if ad is None:
            rep.add('LOCK-OWN', 'adt:%s' % a, '%s exists' % a, False, detail='anchor type %s not found' % a)
            continue
        ok = not ad['exported'] and not ad['reachable']
        rep.add('LOCK-OWN', 'adt:%s' % a.split('::')[-1], '%s is not nameable outside the crate' % a, ok, '%s:%d' % (ad['file'], ad['line']),
                '' if ok else '%s is exported: user code can hold a guard / reach the shared state' % a)
    n = 0
    for b in F.d['bodies']:
        out = b.get('output', '')
        if any(g in out for g in locks.GUARD_ADTS):
            n += 1
            ok = not b.get('exported')
            rep.add('LOCK-OWN', 'ctor:%s' % b['name'], 'guard-returning function %s is not exported' % b['name'], ok,
                    '%s:%d' % (b['span']['file'], b['span']['line']), '' if ok else '%s returns a lock guard and is public API' % b['name'])
    rep.floor('LOCK-OWN', 'guard-returning functions', n, 2)


def fs_none(rep, A):
    rep.rule('FS-NONE', 'every MemfsFile stored in the data map (and every one coerced to dyn ReadSeek) has fs == None: insert_file arguments are '
             'not handle-origin, `fs` is never set through a reference, sync takes the lock only under fs == Some — hence destructors of '
             'stored-origin files cannot reach the lock')
    for (key, desc, ok, where, detail) in A.fs.obligations:
        rep.add('FS-NONE', key, desc, ok, where, detail)
    rep.floor('FS-NONE', 'insert_file / files.insert sites', A.fs.n_insert, 3)


def lock_nest(rep, F, A):
    rep.rule('LOCK-NEST', 'while a guard-holding local is live (from its defining call to its drop / move-out, non-cleanup blocks) no call, dynamic '
             'call, callable closure argument or drop glue may (transitively) acquire the Memfs lock, and no blocking API is called')
    rep.rule('TYPESTATE', 'an Entries iterated while a guard is held originates from a constructor that sets pre_op/sort to None and passes only '
             'through builder methods that assign no closure field; so the traversal engine cannot run a lock-taking or external closure there')
    nreg = 0
    bodies = set()
    excuses = engine.load_table('lock_excuses.json')
    for n in A.cg.names():
        B = A.cg.body(n)
        regs = locks.guard_regions(B)
        for k, R in enumerate(regs):
            nreg += 1
            bodies.add(n)
            viol, disch = A.region_findings(n, R)
            key = 'region:%s:%s#%d' % (n, R.acquired_by.split('::')[-1] if R.acquired_by else 'param', k)
            if viol:
                for (bb, msg, wit) in viol:
                    c = B.term(bb)
                    tgt = (callee_of(c) if c['k'] == 'call' else 'drop ' + c.get('ty', '')) or ''
                    vkey = 'nest:%s:%s' % (n, tgt)
                    desc = 'no acquisition while the guard %s is live in %s' % (B.local_name(R.local) or '_%d' % R.local, n)
                    if vkey in excuses:
                        rep.excuse('LOCK-NEST', vkey, desc, excuses[vkey], B.loc(bb), msg)
                    else:
                        rep.add('LOCK-NEST', vkey, desc, False, B.loc(bb), msg, wit)
            else:
                rep.add('LOCK-NEST', key, 'guard _%d (%s) of %s: %d terminators executed under it, none may acquire the lock or block' % (
                    R.local, R.start_desc, n, len(set(R.points))), True, '%s:%d' % (B.file, B.line))
            for (bb, tgt, why) in disch:
                # under a guard the stronger (all closure fields private) typestate is required
                ok, why2 = A.entries_iter_private(n, bb, 'all')
                rep.add('TYPESTATE', 'typestate:%s:%s' % (n, tgt.split('::')[-1]), 'traversal under a guard in %s uses a privately built Entries' % n,
                        ok, B.loc(bb), why2 if not ok else '', [why2])
    rep.floor('LOCK-NEST', 'guard-live regions', nreg, 30)
    rep.analysed['guard_regions'] = nreg
    rep.analysed['bodies_with_guard'] = len(bodies)
    rep.analysed['may_acquire_functions'] = len(A.may_all)
    rep.analysed['never_err_pruned_sites'] = ['%s at %s (callee %s)' % p for p in A.pruned if 'memfs' in p[0]]


def lock_once(rep, F, A):
    rep.rule('LOCK-ONCE', 'for each single-step operation of the property, the worst entry→return path of the Memfs method (callees, dynamic '
             'targets and destructors included) acquires the lock at most once; an acquisition inside a loop counts as many')
    tr = F.traits[TRAIT]
    names = {m['name'] for m in tr['methods']}
    n = 0
    memo = {}
    for m in SINGLE_STEP:
        if m not in names:
            rep.add('LOCK-ONCE', 'once:%s' % m, 'operation %s exists in the trait' % m, False, detail='trait method %s not found (API changed)' % m)
            continue
        bname = '<%s as %s>::%s' % (MEMFS, TRAIT, m)
        if bname not in F.bodies:
            rep.add('LOCK-ONCE', 'once:%s' % m, 'Memfs implements %s' % m, False, detail='no body %s' % bname)
            continue
        n += 1
        cnt, sites = A.acquisitions(bname, None, memo)
        B = A.cg.body(bname)
        ok = cnt <= 1
        rep.add('LOCK-ONCE', 'once:%s' % m, 'Memfs::%s runs in one critical section (max acquisitions on a path: %s)' % (m, '2+' if cnt >= 2 else cnt),
                ok, '%s:%d' % (B.file, B.line),
                '' if ok else 'Memfs::%s takes the lock more than once on one call path: the operation is not a single atomic step' % m, sites if not ok else sites[:3])
    rep.floor('LOCK-ONCE', 'single-step operations', n, 39)
    # evidence only: operations outside the property's list
    extra = []
    for mm in sorted(names - set(SINGLE_STEP)):
        bname = '<%s as %s>::%s' % (MEMFS, TRAIT, mm)
        if bname in F.bodies:
            cnt, _ = A.acquisitions(bname, None, memo)
            if cnt >= 2:
                extra.append(mm)
    rep.note('operations outside the property\'s single-step list that take several guards (evidence only): %s' % ', '.join(extra))


def snapshot(rep, F, A):
    rep.rule('SNAPSHOT', 'no closure or iterator type stored in Entries.iter_from / EntryIter.iter captures or contains Memfs, a guard or the '
             'lock: traversal works on data cloned under one guard')
    cg = A.cg
    n = 0
    for key, cands in cg.dyn_cands.items():
        is_iter_from = 'EntryIter' in key and 'Fn(' in key
        is_entry_iter = key.startswith('dyn std::iter::Iterator<Item = std::result::Result<sys::fs::entry::VfsEntry')
        if not (is_iter_from or is_entry_iter):
            continue
        for kind, name in sorted(cands):
            n += 1
            bad = None
            if kind == 'closure':
                for up in cg.closure_upvars.get(name, []):
                    bad = bad or type_reaches(F, up['ty'], up['facts'], FORBIDDEN_IN_SNAPSHOT)
            elif kind == 'adt':
                bad = type_reaches(F, name, {'adts': [name]}, FORBIDDEN_IN_SNAPSHOT)
            rep.add('SNAPSHOT', 'snapshot:%s' % name, '%s (stored as %s) holds no reference to the filesystem or its lock' % (name, 'iter_from' if is_iter_from else 'EntryIter.iter'),
                    bad is None, '', '' if bad is None else '%s captures/contains %s: iteration would read live state (or hold the lock) instead of a snapshot' % (name, bad))
    rep.floor('SNAPSHOT', 'traversal closure / iterator candidates', n, 5)
    # the snapshot is taken under the same guard that the caller holds: _entries -> _entry_iter -> _clone_entries
    chain = ['<%s>::_entries' % MEMFS, '<%s>::_entry_iter' % MEMFS, '<%s>::_clone_entries' % MEMFS]
    for a, b in zip(chain, chain[1:]):
        ok = a in F.bodies and any(callee_of(t) == b for i, t in cg.body(a).calls()) if a in F.bodies else False
        rep.add('SNAPSHOT', 'chain:%s' % b.split('::')[-1], '%s calls %s (clone of the implicated branch under the caller\'s guard)' % (a, b), ok,
                '', '' if ok else '%s no longer calls %s' % (a, b))


def run(rep, F, ctx):
    A = locks.LockAnalysis(F)
    lock_own(rep, F, A)
    fs_none(rep, A)
    lock_nest(rep, F, A)
    lock_once(rep, F, A)
    snapshot(rep, F, A)
    panics.no_panic_under_guard(rep, F, A, write_only=False)
    import siteguard as _sg
    _t = engine.load_table('site_guards.json')
    _sg.site_guard(rep, F, A.cg, _t, _t['_groups']['C04'])
    return engine.finish(
        rep, 'other', EXPLANATION,
        assumptions=['user-supplied AsRef<Path>/AsRef<[u8]>/AsRef<str> implementations and their destructors do not re-enter the same Memfs',
                     'external crates (std, itertools, nix) do not call back into rivia except through closure arguments bounded by Fn*',
                     'std::sync::RwLock is a correct reader-writer lock'],
        trusted_base=['rustc nightly MIR / trait resolution', 'extractor/', 'rules/callgraph.py (conservative dyn / generic / drop edges)', 'rules/locks.py'],
        checker_cmd='./check C04', seed=ctx['seed'])
