"""C06 — file contents round-trip exactly.
Decided clause: files are independent — writing one path never changes another, and a copied or moved file does not alias its source
(type-level ownership argument + WHO-WRITES on MemfsFile.data + stored-data keys).  Not decided: byte-exact round trips."""
import engine, atomic
from callgraph import CallGraph
from mir import callee_of

INNER = 'sys::fs::memfs::vfs::MemfsInner'
FILE = 'sys::fs::memfs::file::MemfsFile'
ENTRY = 'sys::fs::memfs::entry::MemfsEntry'
SHARING = ('std::rc::Rc', 'std::sync::Arc', 'std::cell::RefCell', 'std::cell::Cell', 'std::sync::Mutex', 'std::sync::RwLock', 'std::cell::UnsafeCell',
           'std::sync::atomic::AtomicPtr', 'std::borrow::Cow')
EXPLANATION = (
    "Decided (the independence clause): the types reachable from the stored state (MemfsInner, MemfsFile, MemfsEntry) contain no shared-ownership or "
    "interior-mutability type, no raw pointer and no reference, except the optional Memfs back reference of a write/append handle (an Arc clone of the "
    "filesystem itself, never of another file's bytes); the crate contains no unsafe block (rustc's own unsafe_code lint is run as a cross-check in the "
    "thorough tier, the MIR contains no raw-pointer dereference from non-expansion code); so file data is an owned Vec<u8> stored by value under its key "
    "and, under Rust's ownership rules, two paths can never share bytes. The only writers of a stored MemfsFile.data are frozen by WHO-WRITES and each "
    "stores into the record looked up under the path it was given / the handle's own path; copy stores a fresh clone. NOT decided: byte-exact round "
    "trips, truncate/extend semantics and line-helper newline counts (equalities of runtime byte strings).")


def reach_types(F, root, seen=None, path=()):
    """(adt, via) pairs reachable through struct fields from a local ADT"""
    if seen is None:
        seen = {}
    if root in seen:
        return seen
    seen[root] = path
    if root in F.adts:
        for v in F.adts[root]['variants']:
            for f in v['fields']:
                if root == FILE and f['name'] == 'fs':
                    continue   # the documented exception, checked separately
                for a in f['facts']['adts']:
                    reach_types(F, a, seen, path + ('%s.%s' % (root.split('::')[-1], f['name']),))
    return seen


def open_mode(rep, F, cg):
    """`a write replaces the whole content, an append never alters the existing prefix` — decided at the point where the backends open / create the record"""
    import re, inline
    from panics import skey_call, sdesc_operand
    R = 'OPEN-MODE'
    rep.rule(R, 'Stdfs::write and Stdfs::write_all open their target with File::create or an OpenOptions chain that sets write(true) and truncate(true); '
             'Stdfs::append opens with append(true) and never truncate(true); the handle Memfs::write returns starts from an EMPTY buffer and Memfs::write_all '
             'ASSIGNS the record\'s data (no extend / append of the old bytes)')
    STDFS = 'sys::fs::stdfs::Stdfs'
    n = 0
    for m, kind in (('write', 'trunc'), ('write_all', 'trunc'), ('append', 'append')):
        fn = '<%s>::%s' % (STDFS, m)
        if fn not in F.bodies:
            rep.add(R, 'openmode:stdfs:%s' % m, '%s exists' % fn, False, detail='anchor missing')
            continue
        sites = []
        for B, i, t, _f, _inl in inline.walk_calls(F, cg, fn, lambda B, i: [], lambda d, v: (d, v)):
            c = callee_of(t) or ''
            if c in ('<std::fs::File>::create', '<std::fs::File>::create_new', '<std::fs::OpenOptions>::open', '<std::fs::File>::open'):
                sites.append((c, skey_call(B, t), B.loc(i)))
        n += len(sites)
        bad = []
        for c, d, loc in sites:
            if kind == 'trunc':
                good = c == '<std::fs::File>::create' or (c == '<std::fs::OpenOptions>::open' and re.search(r'truncate\(.*,true\)', d) and re.search(r'write\(.*,true\)', d)
                                                        and not re.search(r'append\(.*,true\)', d))
            else:
                good = c == '<std::fs::OpenOptions>::open' and re.search(r'append\(.*,true\)', d) and not re.search(r'truncate\(.*,true\)', d)
            if not good:
                bad.append('%s at %s' % (d, loc))
        ok = bool(sites) and not bad
        rep.add(R, 'openmode:stdfs:%s' % m, 'Stdfs::%s opens its file in %s mode' % (m, 'create+truncate' if kind == 'trunc' else 'append'), ok, '',
                '' if ok else ('Stdfs::%s opens its file with %s: %s' % (m, bad, 'old bytes beyond the new data survive a write' if kind == 'trunc' else 'the existing prefix is not preserved')
                               if bad else 'Stdfs::%s has no file-open site' % m))
    TR = 'sys::fs::vfs::VirtualFileSystem'
    MEMFS = 'sys::fs::memfs::vfs::Memfs'
    fn = '<%s as %s>::write' % (MEMFS, TR)
    if fn in F.bodies:
        B = cg.body(fn)
        aggs = [(i, s) for i, j, s in B.assigns() if s['rv']['k'] == 'aggregate' and s['rv'].get('adt', '').endswith('MemfsFile')]
        bad = []
        for i, s in aggs:
            fields = dict(zip(s['rv']['fields'], s['rv']['ops']))
            d = sdesc_operand(B, fields['data']) if 'data' in fields else '?'
            if not re.fullmatch(r'(new\(\)|Vec::new\(\)|into_vec\(.*\[\].*\)|default\(\)|from_elem\(.*\)|with_capacity\(.*\)|var<.*>|const<.*>)', d) or 'clone' in d or 'data' in d:
                bad.append(d)
        n += len(aggs)
        ok = bool(aggs) and not bad
        rep.add(R, 'openmode:memfs:write', 'the handle returned by Memfs::write starts from an empty buffer', ok, '%s:%d' % (B.file, B.line),
                '' if ok else 'Memfs::write builds its handle with data = %s (expected an empty vector): old content would survive a write' % (bad or 'no MemfsFile aggregate'))
    else:
        rep.add(R, 'openmode:memfs:write', '%s exists' % fn, False, detail='anchor missing')
    rep.floor(R, 'open sites', n, 4)


def run(rep, F, ctx):
    cg = CallGraph(F)
    rep.rule('OWNED-DATA', 'no type reachable through fields from MemfsInner / MemfsFile / MemfsEntry is a shared-ownership or interior-mutability type '
             '(Rc, Arc, RefCell, Cell, Mutex, RwLock, Cow), a raw pointer or a reference — except MemfsFile.fs (the handle\'s filesystem back reference)')
    n = 0
    for root in (INNER, FILE, ENTRY):
        if root not in F.adts:
            rep.add('OWNED-DATA', 'owned:%s' % root, '%s exists' % root, False, detail='anchor type %s missing' % root)
            continue
        for v in F.adts[root]['variants']:
            for f in v['fields']:
                n += 1
                key = 'owned:%s.%s' % (root.split('::')[-1], f['name'])
                if root == FILE and f['name'] == 'fs':
                    ok = f['ty'] == 'std::option::Option<sys::fs::memfs::vfs::Memfs>'
                    rep.add('OWNED-DATA', key, 'MemfsFile.fs is an optional handle to the filesystem itself (not to file bytes)', ok,
                            '%s:%d' % (F.adts[root]['file'], F.adts[root]['line']), '' if ok else 'MemfsFile.fs has type %s' % f['ty'])
                    continue
                bad = []
                seen = {}
                for a in f['facts']['adts']:
                    reach_types(F, a, seen, ('%s.%s' % (root.split('::')[-1], f['name']),))
                for a, via in seen.items():
                    if a in SHARING:
                        bad.append('%s via %s' % (a, ' -> '.join(via)))
                if f['facts']['ref'] or f['facts']['rawptr']:
                    bad.append('reference / raw pointer in %s' % f['ty'])
                # nested local ADTs' fields
                for a in seen:
                    if a in F.adts and a != 'sys::fs::memfs::vfs::Memfs':
                        for vv in F.adts[a]['variants']:
                            for ff in vv['fields']:
                                if (ff['facts']['ref'] or ff['facts']['rawptr']) and not (a == FILE and ff['name'] == 'fs'):
                                    bad.append('reference / raw pointer in %s.%s' % (a, ff['name']))
                if root != FILE and 'sys::fs::memfs::vfs::Memfs' in seen and f['name'] != 'fs':
                    # reaching Memfs (the Arc) from stored state other than through MemfsFile.fs
                    via = seen['sys::fs::memfs::vfs::Memfs']
                    if not any(x.endswith('MemfsFile.fs') for x in via):
                        bad.append('Memfs (Arc) via %s' % ' -> '.join(via))
                rep.add('OWNED-DATA', key, 'field %s.%s : %s owns its data (no aliasing type inside)' % (root.split('::')[-1], f['name'], f['ty']), not bad,
                        '%s:%d' % (F.adts[root]['file'], F.adts[root]['line']),
                        '' if not bad else 'stored state can alias: %s' % '; '.join(bad))
    rep.floor('OWNED-DATA', 'stored-state fields', n, 15)

    rep.rule('NO-UNSAFE-MIR', 'no body of the crate (outside macro expansions) calls an `unsafe fn` or creates a raw pointer: ownership reasoning is valid for the whole crate')
    bad = []
    nb = 0
    for name in cg.names():
        B = cg.body(name)
        nb += 1
        for i, t in B.calls():
            c = t.get('callee') or ''
            sp = B.blocks[i]['span']
            if sp.get('expn'):
                continue
            if t.get('callee_unsafe'):
                bad.append('%s calls unsafe fn %s at %s' % (name, c, B.loc(i)))
        for i, j, s in B.assigns():
            if s['span'].get('expn'):
                continue
            if s['rv']['k'] == 'rawptr':
                bad.append('%s takes a raw pointer at %s' % (name, B.loc(i)))
    rep.add('NO-UNSAFE-MIR', 'nounsafe:crate', 'no raw pointer / unchecked API use in user-written code of the crate', not bad, '',
            '' if not bad else '; '.join(bad[:5]))
    rep.analysed['bodies_scanned_for_unsafe'] = nb

    t = engine.load_table('who_writes.json')
    atomic.who_writes(rep, F, cg, {k: v for k, v in t.items() if k.startswith('MemfsFile.') or k == 'MemfsInner.files'})

    rep.rule('OWN-KEY', 'each in-place write to a stored file record addresses the record through get_file_mut keyed by the operation\'s own resolved path '
             '(write_all, append_all: the _abs result of their path argument; sync: the handle\'s own path), and _copy stores a clone (not the source record)')
    TR = 'sys::fs::vfs::VirtualFileSystem'
    MEMFS = 'sys::fs::memfs::vfs::Memfs'
    from panics import sdesc_operand
    for m in ('write_all', 'append_all'):
        bname = '<%s as %s>::%s' % (MEMFS, TR, m)
        if bname not in F.bodies:
            rep.add('OWN-KEY', 'ownkey:%s' % m, '%s exists' % bname, False, detail='anchor missing')
            continue
        B = cg.body(bname)
        sites = [(i, t) for i, t in B.calls() if (callee_of(t) or '').endswith('>::get_file_mut')]
        import re as _re
        # a handle-based implementation (no in-place write here) is fine: the handle writes back under its own path (C07 SYNC-SHAPE)
        ok = all(_re.fullmatch(r'_abs\(arg1,write_guard\(arg1\),arg2\)\?', sdesc_operand(B, t['args'][1])) for i, t in sites)
        rep.add('OWN-KEY', 'ownkey:%s' % m, 'Memfs::%s modifies only the record stored under abs(path)' % m, ok, '%s:%d' % (B.file, B.line),
                '' if ok else 'Memfs::%s writes a record not keyed by its own resolved path argument: %s' % (m, [sdesc_operand(B, t['args'][1]) for i, t in sites]))
    cp = '<%s>::_copy' % MEMFS
    if cp in F.bodies:
        B = cg.body(cp)
        sites = [(i, t) for i, t in B.calls() if (callee_of(t) or '').endswith('>::insert_file')]
        ok = bool(sites) and all(sdesc_operand(B, t['args'][2]).startswith('_clone_file(') for i, t in sites)
        rep.add('OWN-KEY', 'ownkey:_copy', '_copy stores a clone of the source data (_clone_file result) under the destination key', ok, '%s:%d' % (B.file, B.line),
                '' if ok else '_copy stores %s' % [sdesc_operand(B, t['args'][2]) for i, t in sites])
    open_mode(rep, F, cg)
    import mustcall as _mc
    _mc.handle_path(rep, F, cg)
    import siteguard as _sg
    _t = engine.load_table('site_guards.json')
    _sg.site_guard(rep, F, cg, _t, _t['_groups']['C06'])
    return engine.finish(
        rep, 'other', EXPLANATION,
        assumptions=['Rust ownership: a value of a type without sharing/interior-mutability components and without references has a unique owner',
                     'std collections (HashMap, Vec, PathBuf, String, HashSet) own their elements'],
        trusted_base=['rustc type checker / borrow checker', 'extractor/ (ADT field types, visibility)', 'rules/p_C06.py'],
        checker_cmd='./check C06', seed=ctx['seed'])
