"""MUST-CALL / CAN-FAIL helpers."""
from mir import Body, callee_of


def paths_avoiding(B, pred):
    """return a witness path (list of blocks) entry -> return that passes no block whose terminator satisfies pred, or None"""
    avoid = {i for i in B.normal if pred(B.term(i))}
    if 0 in avoid:
        return None
    reach = B.reachable_from(0, avoid)
    for e in B.exits:
        if e in reach:
            return B.path(0, e, avoid) or [0, e]
    return None


def must_call(rep, rule, key, B, callee_pred, what):
    """every entry->return path of B passes a call satisfying callee_pred"""
    w = paths_avoiding(B, lambda t: t['k'] == 'call' and callee_pred(t))
    ok = w is None and any(t['k'] == 'call' and callee_pred(t) for i, t in B.calls())
    wit = []
    if w:
        wit = ['path avoiding the call: ' + ' -> '.join('bb%d(%s)' % (b, B.loc(b)) for b in w)]
    return rep.add(rule, key, 'every entry->return path of %s calls %s' % (B.name, what), ok, '%s:%d' % (B.file, B.line),
                   '' if ok else '%s can return without calling %s' % (B.name, what), wit)


def call_sites(B, callee_pred):
    return [(i, t) for i, t in B.calls() if callee_pred(t)]


def in_cycle(B, bb):
    """is block bb on a cycle of the normal CFG"""
    for s in B.succs(bb):
        if bb in B.reachable_from(s):
            return True
    return False
