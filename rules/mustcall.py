"""MUST-CALL / CAN-FAIL helpers."""
from mir import Body, callee_of


def paths_avoiding(B, pred):
    """return a witness path (list of blocks) entry -> return that passes no block whose terminator satisfies pred, or None"""
    avoid = {i for i in B.normal if pred(B.term(i))}
    if 0 in avoid:
        return None
    reach = B.reachable_from(0, avoid)
    for e in B.exits:
        if e in reach:
            return B.path(0, e, avoid) or [0, e]
    return None


def must_call(rep, rule, key, B, callee_pred, what):
    """every entry->return path of B passes a call satisfying callee_pred"""
    w = paths_avoiding(B, lambda t: t['k'] == 'call' and callee_pred(t))
    ok = w is None and any(t['k'] == 'call' and callee_pred(t) for i, t in B.calls())
    wit = []
    if w:
        wit = ['path avoiding the call: ' + ' -> '.join('bb%d(%s)' % (b, B.loc(b)) for b in w)]
    return rep.add(rule, key, 'every entry->return path of %s calls %s' % (B.name, what), ok, '%s:%d' % (B.file, B.line),
                   '' if ok else '%s can return without calling %s' % (B.name, what), wit)


def call_sites(B, callee_pred):
    return [(i, t) for i, t in B.calls() if callee_pred(t)]


def in_cycle(B, bb):
    """is block bb on a cycle of the normal CFG"""
    for s in B.succs(bb):
        if bb in B.reachable_from(s):
            return True
    return False


def handle_path(rep, F, cg, rule='HANDLE-PATH'):
    """write / append handles carry the resolved path they were opened with"""
    from panics import sdesc_operand, sdesc_place, skey_call
    from mir import callee_of, op_local, op_place
    rep.rule(rule, 'the MemfsFile handle returned by Memfs::write / Memfs::append has its `path` set to Some(abs(path argument)) by an unconditional assignment '
             '(or struct literal) before it is boxed: the write-back target of a handle is always the path it was opened with, never a path inherited from the stored record')
    TR = 'sys::fs::vfs::VirtualFileSystem'
    MEMFS = 'sys::fs::memfs::vfs::Memfs'
    want = 'Some(_abs(arg1,write_guard(arg1),arg2)?)'
    for m in ('write', 'append'):
        fn = '<%s as %s>::%s' % (MEMFS, TR, m)
        if fn not in F.bodies:
            rep.add(rule, 'handlepath:%s' % m, '%s exists' % fn, False, detail='anchor missing')
            continue
        B = cg.body(fn)
        boxes = [(i, t) for i, t in B.calls() if (t.get('callee') or '').endswith('Box<T>>::new') and any('MemfsFile' in a for a in t['arg_tys'])]
        ok = bool(boxes)
        why = []
        for (i, t) in boxes:
            l = op_local(t['args'][0])
            # follow moves back to the named / constructed value
            for _ in range(4):
                ds = B.whole_defs(l) if l is not None else []
                if len(ds) == 1 and ds[0][0] == 'assign' and ds[0][4]['k'] == 'use' and op_local(ds[0][4]['op']) is not None:
                    l = op_local(ds[0][4]['op'])
                else:
                    break
            good = False
            ds = B.whole_defs(l) if l is not None else []
            for d in ds:
                if d[0] == 'assign' and d[4]['k'] == 'aggregate' and d[4].get('adt', '').endswith('MemfsFile'):
                    v = sdesc_operand(B, d[4]['ops'][d[4]['fields'].index('path')])
                    if v == want:
                        good = True
            for bi, bj, st in B.assigns():
                pl = st['place']
                if pl['l'] == l and len(pl['p']) == 1 and pl['p'][0].get('name') == 'path' and st['rv']['k'] == 'use':
                    if sdesc_operand(B, st['rv']['op']) == want and B.dominates(bi, i):
                        good = True
            if not good:
                ok = False
                why.append('the handle boxed at %s does not get path = Some(abs(path)) unconditionally' % B.loc(i))
        rep.add(rule, 'handlepath:%s' % m, 'Memfs::%s returns a handle whose write-back path is the resolved path argument' % m, ok, '%s:%d' % (B.file, B.line),
                '' if ok else '; '.join(why or ['no boxed MemfsFile handle found']) + ' — data written through the handle can land in another file (aliasing)')
