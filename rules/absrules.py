"""ABS-FIRST (sanitizer dataflow), PIPELINE, EFFECT — path resolution rules (C05)."""
import re
from collections import defaultdict
from mir import Body, callee_of, op_local, op_place
from panics import sdesc_operand, describe_operand

TR = 'sys::fs::vfs::VirtualFileSystem'
MEMFS = 'sys::fs::memfs::vfs::Memfs'
STDFS = 'sys::fs::stdfs::Stdfs'
GUARD = 'sys::fs::memfs::vfs::MemfsGuard'

IO_SINK = re.compile(r'^(std::fs::|<std::fs::File>::|<std::fs::OpenOptions>::open|nix::|<nix::|std::os::unix::fs::|std::env::set_current_dir|'
                     r'<std::path::Path>::(exists|metadata|symlink_metadata|canonicalize|read_link|read_dir|is_dir|is_file|is_symlink|try_exists)$|'
                     r'<std::path::PathBuf>::(exists|metadata|symlink_metadata|canonicalize|read_link|read_dir|is_dir|is_file|is_symlink|try_exists)$)')
IO_EFFECT = re.compile(r'^(std::fs::|<std::fs::File>::|<std::fs::OpenOptions>::|nix::|<nix::|std::os::unix::fs::|std::env::set_current_dir|std::env::set_var|std::env::remove_var|'
                       r'std::process::|<std::process::|std::net::|<std::net::|'
                       r'<std::path::Path>::(exists|metadata|symlink_metadata|canonicalize|read_link|read_dir|is_dir|is_file|is_symlink|try_exists)$)')


def path_params(b):
    """parameter locals (1-based) whose type is a generic parameter bounded by AsRef<Path>"""
    out = []
    preds = b.get('preds', [])
    for idx, ty in enumerate(b.get('inputs', [])):
        base = ty.lstrip('&').strip()
        if re.fullmatch(r'[A-Z][A-Za-z0-9]*', base) and any(p.startswith('%s: std::convert::AsRef<std::path::Path>' % base) for p in preds):
            out.append(idx + 1)
    return out


class AbsFirst:
    def __init__(self, F, cg):
        self.F = F
        self.cg = cg
        import roles
        r = roles.discover(F)
        self.sanitizers = {r.get('memfs_abs', '<%s>::_abs' % MEMFS), '<%s as %s>::abs' % (MEMFS, TR), r.get('stdfs_abs', '<%s>::abs' % STDFS),
                           '<%s as %s>::abs' % (STDFS, TR), '<sys::fs::vfs::Vfs as %s>::abs' % TR}
        self.raw_fields = set()      # (adt, field) holding an unresolved path
        self._findings = {}
        self._collect_raw_fields()

    def is_sink(self, t):
        c = t.get('callee') or ''
        r = t.get('resolved') or ''
        if IO_SINK.match(c) or IO_SINK.match(r):
            return True
        b = self.F.bodies.get(r) or self.F.bodies.get(c)
        if b is not None and b.get('impl_self', '').startswith(GUARD):
            return True
        if r == '<sys::fs::memfs::entry::MemfsEntry>::opts':
            return True
        return False

    def _taint(self, name, seeds, seed_fields=True):
        """flow-insensitive taint of raw path values inside one body; returns (tainted locals)"""
        B = self.cg.body(name)
        T = set(seeds)
        changed = True

        def op_tainted(o):
            p = op_place(o)
            if p is None:
                return False
            if p['l'] in T:
                return True
            return False

        def place_raw_field(p):
            for e in p['p']:
                if e['k'] == 'field' and (e.get('adt'), e.get('name')) in self.raw_fields:
                    return True
            return False
        while changed:
            changed = False
            for i, j, s in B.assigns():
                d = s['place']['l']
                if d in T:
                    continue
                rv = s['rv']
                k = rv['k']
                srcs = []
                if k in ('use', 'cast'):
                    srcs = [rv['op']]
                elif k in ('ref', 'copyforderef'):
                    srcs = [{'k': 'copy', 'place': rv['place']}]
                elif k == 'aggregate':
                    srcs = rv['ops']
                hit = False
                for o in srcs:
                    if op_tainted(o):
                        hit = True
                    p = op_place(o)
                    if seed_fields and p is not None and place_raw_field(p):
                        hit = True
                if hit:
                    T.add(d)
                    changed = True
            for i, t in B.calls():
                d = t['dest']['l']
                if d in T:
                    continue
                c = callee_of(t) or ''
                if c in self.sanitizers or (t.get('callee') or '') in self.sanitizers:
                    continue
                if c in self.F.bodies and not c.startswith('sys::fs::path::') and not c.startswith('<std::path::Path as sys::fs::path::PathExt>') \
                        and not c.startswith('<std::path::Path as core::string') and 'errors::' not in c:
                    continue   # results of other local operations are resolved values
                if any(op_tainted(a) or (op_place(a) is not None and seed_fields and place_raw_field(op_place(a))) for a in t['args']):
                    T.add(d)
                    changed = True
        return T

    def _collect_raw_fields(self):
        """struct fields that are assigned a raw (unresolved) path parameter somewhere: CopyOpts.{src,dst}"""
        for n in self.cg.names():
            b = self.F.bodies[n]
            pp = path_params(b)
            if not pp:
                continue
            B = self.cg.body(n)
            T = self._taint(n, pp, seed_fields=False)
            for i, j, s in B.assigns():
                rv = s['rv']
                if rv['k'] == 'aggregate' and rv['agg'] == 'adt':
                    if rv['adt'] not in self.F.adts or rv['adt'].startswith('errors::'):
                        continue
                    ftys = {f['name']: f['ty'] for v in self.F.adts[rv['adt']]['variants'] for f in v['fields']}
                    for fname, o in zip(rv['fields'], rv['ops']):
                        p = op_place(o)
                        if p is not None and p['l'] in T and 'Path' in ftys.get(fname, ''):
                            self.raw_fields.add((rv['adt'], fname))

    def analyse(self, name, seeds):
        """violations [(bb, callee, arg description)] and local callees receiving raw values [(bb, callee, arg index)]"""
        B = self.cg.body(name)
        T = self._taint(name, seeds)
        viol = []
        passes = []
        for i, t in B.calls():
            c = callee_of(t) or ''
            raw_args = []
            for ai, a in enumerate(t['args']):
                p = op_place(a)
                if p is None:
                    continue
                if p['l'] in T or any(e['k'] == 'field' and (e.get('adt'), e.get('name')) in self.raw_fields for e in p['p']):
                    raw_args.append(ai)
            if not raw_args:
                continue
            if c in self.sanitizers or (t.get('callee') or '') in self.sanitizers:
                continue
            if self.is_sink(t):
                viol.append((i, c or t.get('callee'), describe_operand(B, t['args'][raw_args[0]])))
            elif c in self.F.bodies:
                for ai in raw_args:
                    passes.append((i, c, ai + 1))
        return viol, passes, T


def abs_first(rep, F, cg, rule='ABS-FIRST'):
    rep.rule(rule, 'every path-like parameter (T: AsRef<Path>) of every VirtualFileSystem method of both backends, and every struct field that stores such a '
             'raw path (CopyOpts.src / dst), reaches a sink — a MemfsGuard accessor, MemfsEntry::opts, std::fs / File / OpenOptions / nix / unix::fs / '
             'set_current_dir / Path::{exists,metadata,...} — only through the backend\'s abs(), directly or through a local callee that itself sanitizes '
             'that parameter; error constructors are not sinks')
    A = AbsFirst(F, cg)
    methods = [m['name'] for m in F.traits[TR]['methods']]
    targets = []
    for m in methods:
        for fn in ('<%s as %s>::%s' % (MEMFS, TR, m), '<%s>::%s' % (STDFS, m)):
            if fn in F.bodies:
                targets.append(fn)
    # sanitizes(fn, param) fixpoint over all local fns with path params
    cand = {}
    for n in cg.names():
        pp = path_params(F.bodies[n])
        for p in pp:
            cand[(n, p)] = True
    info = {}
    for (n, p) in cand:
        info[(n, p)] = A.analyse(n, [p])
    changed = True
    while changed:
        changed = False
        for (n, p), ok in list(cand.items()):
            if not ok:
                continue
            viol, passes, T = info[(n, p)]
            bad = bool(viol) and n not in A.sanitizers
            for (bb, c, ai) in passes:
                if c in A.sanitizers:
                    continue
                if 'errors::' in c or c.startswith('sys::fs::path::') or c.startswith('<std::path::Path as sys::fs::path::PathExt>') or c.startswith('<std::path::Path as core::string'):
                    continue     # pure path helpers / error constructors: not sinks, taint flows through their result
                if cand.get((c, ai)) is False:
                    bad = True
                elif (c, ai) not in cand:
                    # local callee whose parameter is not a generic path (e.g. &Path): analyse it with that parameter as seed
                    if (c, ai) not in info:
                        info[(c, ai)] = A.analyse(c, [ai])
                        cand[(c, ai)] = True
                        changed = True
            if bad and n not in A.sanitizers:
                cand[(n, p)] = False
                changed = True
    n_obl = 0
    for fn in targets:
        b = F.bodies[fn]
        B = cg.body(fn)
        for p in path_params(b):
            n_obl += 1
            viol, passes, T = info[(fn, p)]
            pname = B.local_name(p) or 'arg%d' % p
            key = 'absfirst:%s:%s' % (fn, pname)
            probs = []
            for (bb, c, d) in viol:
                probs.append('raw `%s` reaches sink %s at %s' % (d, c, B.loc(bb)))
            for (bb, c, ai) in passes:
                if cand.get((c, ai)) is False and c not in A.sanitizers:
                    probs.append('passed unresolved to %s (at %s), which uses it without abs()' % (c, B.loc(bb)))
            rep.add(rule, key, 'parameter `%s` of %s is interpreted only through abs()' % (pname, fn), not probs, '%s:%d' % (B.file, B.line),
                    '' if not probs else '%s: %s — the call behaves differently for abs(path) and for another spelling of the same path' % (fn, '; '.join(probs[:3])))
    # raw struct fields
    for (adt, f) in sorted(A.raw_fields):
        for n in cg.names():
            B = cg.body(n)
            uses = False
            for i, t in B.calls():
                for a in t['args']:
                    pl = op_place(a)
                    if pl is not None and any(e['k'] == 'field' and e.get('adt') == adt and e.get('name') == f for e in pl['p']):
                        uses = True
            for i, j, s in B.assigns():
                rv = s['rv']
                if rv['k'] in ('ref', 'copyforderef') and any(e['k'] == 'field' and e.get('adt') == adt and e.get('name') == f for e in rv['place']['p']):
                    uses = True
            if uses:
                n_obl += 1
                viol, passes, T = A.analyse(n, [])
                probs = ['raw `%s` reaches sink %s at %s' % (d, c, B.loc(bb)) for (bb, c, d) in viol]
                probs += ['passed unresolved to %s at %s' % (c, B.loc(bb)) for (bb, c, ai) in passes if cand.get((c, ai)) is False and c not in A.sanitizers]
                rep.add(rule, 'absfirst:%s:%s.%s' % (n, adt.split('::')[-1], f), 'the raw path stored in %s.%s is resolved through abs() before use in %s' % (adt.split('::')[-1], f, n),
                        not probs, '%s:%d' % (B.file, B.line), '; '.join(probs[:3]))
    rep.floor(rule, 'path-like parameters of VFS methods', n_obl, 80)
    rep.analysed['raw_path_fields'] = sorted('%s.%s' % (a.split('::')[-1], f) for a, f in A.raw_fields)
    return A


def transitive_externals(cg, F, start):
    seen = set()
    ext = {}
    work = [start]
    while work:
        x = work.pop()
        if x in seen or x not in F.bodies:
            continue
        seen.add(x)
        B = cg.body(x)
        for i, t in B.calls():
            c = t.get('resolved') or t.get('callee') or ''
            d = t.get('callee') or ''
            if c in F.bodies:
                work.append(c)
            elif d in F.bodies:
                work.append(d)
            else:
                ext.setdefault(d or c, '%s at %s' % (x, B.loc(i)))
        for e in cg.edges(x):
            if e.kind in ('generic', 'dyn'):
                work.append(e.target)
    return ext


def effect(rep, F, cg, fn, forbidden, what, rule='EFFECT', key=None):
    if fn not in F.bodies:
        rep.add(rule, key or 'effect:%s' % fn, '%s exists' % fn, False, detail='anchor %s missing' % fn)
        return {}
    ext = transitive_externals(cg, F, fn)
    bad = ['%s (%s)' % (c, w) for c, w in sorted(ext.items()) if forbidden.match(c)]
    B = cg.body(fn)
    rep.add(rule, key or 'effect:%s' % fn, what, not bad, '%s:%d' % (B.file, B.line), '' if not bad else '%s reaches %s' % (fn, '; '.join(bad[:4])),
            ['%d distinct external callees reachable' % len(ext)])
    return ext
