"""C02 — Stdfs and Memfs are interchangeable.
Decided clause (anchor mechanism 2, shared option structs and shared traversal engine): SIBLING + CHAIN + SETTER on the parts the two backends are
supposed to share verbatim.  Not decided: outcome and tree equality of the two backends on a real kernel."""
import re
import engine, setters, linkrules, locks, errguard
from callgraph import CallGraph
from atomic import PairCheck, Mutation
from mir import callee_of, op_local
from panics import skey_call, sdesc_operand

TR = 'sys::fs::vfs::VirtualFileSystem'
MEMFS = 'sys::fs::memfs::vfs::Memfs'
STDFS = 'sys::fs::stdfs::Stdfs'
EXPLANATION = (
    "Decided (necessary conditions of interchangeability — a difference in any of them makes the same call behave differently on the two backends): the "
    "six listing helpers configure the shared traversal engine identically (CHAIN on both backends); chmod_b / chown_b / copy_b build identical default "
    "option structs, field by field, with the path fields resolved through abs on both (OPTS-DEFAULT); the one-liners chmod / chown / copy and the line "
    "helpers append_line / append_lines / write_lines have the same call skeleton (SIBLING); _chmod and _chown configure their traversal identically "
    "(TRAVERSAL-SETUP) and guard permission writes with the same !is_symlink() || follow condition (GUARDED-BY); config_dir has the same skeleton; every "
    "shared builder assigns its documented fields (SETTER). A ranked cross-reference of the validation errors each backend can construct per method is "
    "written to the evidence but NOT armed (a backend may rely on the OS to reject what the other validates). NOT decided: that the same call sequence "
    "yields the same outcomes, values and tree on a real kernel (runtime equivalence against an external system).")


def shift_args(k):
    return re.sub(r'arg(\d)', lambda m: 'arg%d' % (int(m.group(1)) - 1), k)


def skeleton(cg, fn, memfs):
    B = cg.body(fn)
    out = []
    for i, t in B.calls():
        c = (t.get('callee') or '')
        short = c.split('::')[-1]
        if short in ('deref', 'as_ref', 'branch', 'from_residual', 'into', 'from', 'drop', 'deref_mut', 'borrow', 'to_owned', 'clone'):
            continue
        k = skey_call(B, t)
        if memfs:
            k = shift_args(k.replace('(arg1,', '(').replace('(arg1)', '()'))
        out.append(re.sub(r'\b(Memfs|Stdfs)\b', 'B', k))
    return sorted(out)


def run(rep, F, ctx):
    A = locks.LockAnalysis(F)
    cg = A.cg
    P = PairCheck(F, cg, Mutation(F, cg))
    setters.chain(rep, F, cg, engine.load_table('chains.json'), ctors=A.closure_free_constructors())
    setters.setter(rep, F, cg, engine.load_table('setters.json'))
    setters.traversal_setup(rep, F, cg)
    setters.mode_selection(rep, F, cg)
    setters.copy_parent_mode(rep, F, cg)

    rep.rule('OPTS-DEFAULT', 'chmod_b / chown_b / copy_b of the two backends build the same default option struct: every constant field has the same value and the '
             'path field is an abs() result (chmod/chown) or the unresolved argument (copy) on both')
    for helper, adt in (('chmod_b', 'sys::fs::chmod::ChmodOpts'), ('chown_b', 'sys::fs::chown::ChownOpts'), ('copy_b', 'sys::fs::copy::CopyOpts')):
        vals = {}
        for be, fn in (('memfs', '<%s as %s>::%s' % (MEMFS, TR, helper)), ('stdfs', '<%s>::%s' % (STDFS, helper))):
            if fn not in F.bodies:
                rep.add('OPTS-DEFAULT', 'optsdefault:%s:%s' % (helper, be), '%s exists' % fn, False, detail='anchor missing')
                continue
            B = cg.body(fn)
            for i, j, s in B.assigns():
                rv = s['rv']
                if rv['k'] == 'aggregate' and rv.get('adt') == adt:
                    d = {}
                    for f, o in zip(rv['fields'], rv['ops']):
                        v = sdesc_operand(B, o)
                        if be == 'memfs':
                            v = shift_args(v.replace('(arg1,', '(').replace('write_guard(arg1)', 'G').replace('read_guard(arg1)', 'G'))
                        v = re.sub(r'^(abs|_abs)\(.*?(arg\d)\)\?$', r'abs(\2)?', v)
                        d[f] = v
                    vals[be] = d
        ok = len(vals) == 2 and vals['memfs'] == vals['stdfs']
        rep.add('OPTS-DEFAULT', 'optsdefault:%s' % helper, 'Memfs::%s and Stdfs::%s build the same default %s' % (helper, helper, adt.split('::')[-1]), ok, '',
                '' if ok else 'defaults differ: memfs %s vs stdfs %s' % (vals.get('memfs'), vals.get('stdfs')), [str(vals.get('memfs'))])

    rep.rule('SIBLING', 'mirrored one-line / line-helper methods of the two backends have the same call skeleton (callee names and structural argument '
             'descriptions after removing the receiver)')
    for m in ('chmod', 'chown', 'copy', 'append_line', 'append_lines', 'write_lines'):
        fa, fb = '<%s as %s>::%s' % (MEMFS, TR, m), '<%s>::%s' % (STDFS, m)
        if fa not in F.bodies or fb not in F.bodies:
            rep.add('SIBLING', 'sibling:%s' % m, '%s exists on both backends' % m, False, detail='anchor missing')
            continue
        sa, sb = skeleton(cg, fa, True), skeleton(cg, fb, False)
        ok = sa == sb
        rep.add('SIBLING', 'sibling:%s' % m, 'Memfs::%s and Stdfs::%s make the same calls' % (m, m), ok, '%s:%d' % (cg.body(fa).file, cg.body(fa).line),
                '' if ok else 'Memfs::%s: %s vs Stdfs::%s: %s' % (m, sa, m, sb), [str(sa)])

    rep.rule('GUARDED-BY', 'permission writes in both _chmod implementations sit behind the same !is_symlink() || follow guard')
    perm = lambda B, i, tt: (callee_of(tt) or '') in ('<sys::fs::memfs::entry::MemfsEntry>::set_mode', 'std::fs::set_permissions')
    for fn in ('<%s>::_chmod' % MEMFS, '<%s>::_chmod::{closure#0}' % MEMFS, '<%s>::_chmod' % STDFS, '<%s>::_chmod::{closure#0}' % STDFS):
        linkrules.guarded_sites(rep, 'GUARDED-BY', 'guarded', F, cg, fn, perm, [[('false', r'is_symlink\('), ('true', r'\.follow$')]],
                                '%(fn)s changes permissions only for a non-link entry (or when following)',
                                '%(fn)s changes permissions at %(loc)s without the guard !is_symlink() || follow', P)

    errguard.err_guard(rep, F, cg, engine.load_table('err_guards.json'), lambda fn: 'stdfs' in fn)
    # the Memfs side of `same tree, same success-or-failure`: Memfs keeps its indexes the way a real directory tree behaves (shared with C03 / C01)
    import p_C03
    p_C03.pair_rules(rep, F, cg, Mutation(F, cg))
    errguard.err_guard(rep, F, cg, engine.load_table('err_guards.json'), lambda fn: 'memfs' in fn, rule='ERR-GUARD-MEMFS')
    errguard.io_table(rep, F, cg, engine.load_table('stdfs_io.json'))
    # evidence only: which PathError constructors each backend may call per trait method (Engler-style contradiction cross-check)
    diffs = []
    for m in [x['name'] for x in F.traits[TR]['methods']]:
        sets = {}
        for be, fn in (('memfs', '<%s as %s>::%s' % (MEMFS, TR, m)), ('stdfs', '<%s>::%s' % (STDFS, m))):
            if fn not in F.bodies:
                continue
            seen = set()
            errs = set()
            work = [fn]
            while work:
                x = work.pop()
                if x in seen or x not in F.bodies:
                    continue
                seen.add(x)
                for i, t in cg.body(x).calls():
                    c = t.get('resolved') or t.get('callee') or ''
                    if c.startswith('<errors::path::PathError>::'):
                        errs.add(c.split('::')[-1])
                    elif c in F.bodies and not c.startswith('sys::fs::path::') and 'PathExt' not in c and len(seen) < 40:
                        work.append(c)
            sets[be] = errs
        if len(sets) == 2 and sets['memfs'] != sets['stdfs']:
            diffs.append('%s: memfs-only %s, stdfs-only %s' % (m, sorted(sets['memfs'] - sets['stdfs']), sorted(sets['stdfs'] - sets['memfs'])))
    rep.analysed['validation_error_differences_not_armed'] = diffs
    rep.note('validation-error cross-reference (NOT armed, evidence only): %d methods whose backends can construct different PathError kinds' % len(diffs))
    import siteguard as _sg
    _t = engine.load_table('site_guards.json')
    _sg.site_guard(rep, F, cg, _t, _t['_groups']['C02'])
    return engine.finish(
        rep, 'other', EXPLANATION,
        assumptions=['the chain and setter tables transcribe the documented configuration'],
        trusted_base=['rustc nightly MIR', 'extractor/', 'rules/setters.py, rules/linkrules.py'],
        checker_cmd='./check C02', seed=ctx['seed'])
