"""C15 — path helpers obey their inverse and containment laws.
Decided: UNIT (prefix/suffix removal slices at byte offsets), ROOT-STRIP (mash removes every leading separator before join),
FWD (the 21 PathExt methods forward to the free functions with arguments in order).  Not decided: the laws themselves for all strings."""
import engine, fwd, panics, pathrules
from callgraph import CallGraph

EXPLANATION = (
    "Necessary structural conditions of the path-helper laws, decided for all inputs: string slicing in the prefix/suffix helpers uses byte "
    "offsets of a verified prefix/suffix and never a character count (UNIT); mash hands Path::join only an operand from which every leading "
    "separator has been removed, so the result stays under the directory (ROOT-STRIP); each PathExt method is a transparent forwarder to the free "
    "function of the same name with self and the parameters in order (FWD), so the laws of the free functions carry over to the method forms. "
    "NOT decided: the inverse / containment equations themselves (trim_ext + '.' + ext == p, splitting laws, parse_paths, trim_protocol) — "
    "equalities between computed strings for all inputs.")


def ext_source(rep, F, cg):
    """`trim_ext(p) + '.' + ext(p) == p` and `name(p) is base(p) without that extension`: one notion of extension"""
    from mir import callee_of
    R = 'EXT-SOURCE'
    rep.rule(R, 'ext, trim_ext and name all take their notion of "extension" from the same std primitive: each reaches std::path::Path::extension (or file_stem, its '
             'complement) through the call graph of sys::fs::path, and none of them splits the name at a dot on its own (split / rsplit / find / rfind on \'.\')')
    P = 'sys::fs::path::'
    STD = ('<std::path::Path>::extension', '<std::path::Path>::file_stem')
    OWN_SPLIT = ('rsplit_once', 'split_once', 'rsplit', 'rsplitn', 'splitn', 'rfind', 'find', 'split', 'rsplit_terminator', 'strip_suffix')

    def reach(fn, seen):
        """(reaches the std extension primitive, own dot-splitting callees) through sys::fs::path helpers"""
        if fn in seen or fn not in F.bodies:
            return False, []
        seen.add(fn)
        hit, own = False, []
        names = [fn] + [n for n in F.bodies if n.startswith(fn + '::{closure')]
        for n in names:
            for i, t in cg.body(n).calls():
                c = t.get('resolved') or callee_of(t) or ''
                d = callee_of(t) or ''
                if d in STD or c in STD:
                    hit = True
                elif d.startswith('<str>::') and d.split('::')[-1] in OWN_SPLIT:
                    own.append(d)
                elif c.startswith(P) or d.startswith(P):
                    h, o = reach(c if c.startswith(P) else d, seen)
                    hit = hit or h
        return hit, own
    n = 0
    for f in ('ext', 'trim_ext', 'name'):
        fn = P + f
        if fn not in F.bodies:
            rep.add(R, 'extsource:%s' % f, '%s exists' % fn, False, detail='anchor missing')
            continue
        n += 1
        hit, own = reach(fn, set())
        ok = hit and not own
        B = cg.body(fn)
        rep.add(R, 'extsource:%s' % f, 'sys::%s derives the extension from Path::extension' % f, ok, '%s:%d' % (B.file, B.line),
                '' if ok else 'sys::%s %s: its idea of the extension can differ from ext() / trim_ext() (dot files, `..`, trailing dots)' %
                (f, ('splits the name itself with %s' % sorted(set(own))) if own else 'no longer reaches std::path::Path::extension'))
    rep.floor(R, 'extension helpers', n, 3)


def run(rep, F, ctx):
    cg = CallGraph(F)
    panics.unit(rep, F, cg)
    pathrules.root_strip(rep, F, cg)
    pathrules.join_own(rep, F, cg)
    ext_source(rep, F, cg)
    rep.rule('FWD', 'each PathExt method body is exactly one call of the same-named free function in sys::fs::path with self and its parameters in order, result returned unmodified')
    n = fwd.static_forwarders(rep, F, 'std::path::Path', fwd.PATHEXT_TRAIT, 'sys::fs::path::{name}', False)
    rep.floor('FWD', 'PathExt forwarders', n, 21)
    import primtable as _pt
    _pt.prim_table(rep, F, cg, engine.load_table('primitives.json'), _pt.GROUPS['C15'])
    import siteguard as _sg
    _t = engine.load_table('site_guards.json')
    _sg.site_guard(rep, F, cg, _t, _t['_groups']['C15'])
    return engine.finish(
        rep, 'other', EXPLANATION,
        assumptions=['std::path::Path::join replaces the base when the joined operand is absolute (std contract)'],
        trusted_base=['rustc nightly MIR', 'extractor/', 'rules/panics.py (UNIT), rules/pathrules.py, rules/fwd.py'],
        checker_cmd='./check C15', seed=ctx['seed'])
