"""C15 — path helpers obey their inverse and containment laws.
Decided: UNIT (prefix/suffix removal slices at byte offsets), ROOT-STRIP (mash removes every leading separator before join),
FWD (the 21 PathExt methods forward to the free functions with arguments in order).  Not decided: the laws themselves for all strings."""
import engine, fwd, panics, pathrules
from callgraph import CallGraph

EXPLANATION = (
    "Necessary structural conditions of the path-helper laws, decided for all inputs: string slicing in the prefix/suffix helpers uses byte "
    "offsets of a verified prefix/suffix and never a character count (UNIT); mash hands Path::join only an operand from which every leading "
    "separator has been removed, so the result stays under the directory (ROOT-STRIP); each PathExt method is a transparent forwarder to the free "
    "function of the same name with self and the parameters in order (FWD), so the laws of the free functions carry over to the method forms. "
    "NOT decided: the inverse / containment equations themselves (trim_ext + '.' + ext == p, splitting laws, parse_paths, trim_protocol) — "
    "equalities between computed strings for all inputs.")


def run(rep, F, ctx):
    cg = CallGraph(F)
    panics.unit(rep, F, cg)
    pathrules.root_strip(rep, F, cg)
    pathrules.join_own(rep, F, cg)
    rep.rule('FWD', 'each PathExt method body is exactly one call of the same-named free function in sys::fs::path with self and its parameters in order, result returned unmodified')
    n = fwd.static_forwarders(rep, F, 'std::path::Path', fwd.PATHEXT_TRAIT, 'sys::fs::path::{name}', False)
    rep.floor('FWD', 'PathExt forwarders', n, 21)
    return engine.finish(
        rep, 'other', EXPLANATION,
        assumptions=['std::path::Path::join replaces the base when the joined operand is absolute (std contract)'],
        trusted_base=['rustc nightly MIR', 'extractor/', 'rules/panics.py (UNIT), rules/pathrules.py, rules/fwd.py'],
        checker_cmd='./check C15', seed=ctx['seed'])
