"""FAIL-ATOMIC (validate before mutate), WHO-WRITES, PAIR — the Memfs bookkeeping rules (C01, C03, C09)."""
import re
from collections import defaultdict
from mir import Body, callee_of, op_local, op_place, place_key
from panics import describe_operand, describe_local, sdesc_operand, skey_call
import engine

GUARD = 'sys::fs::memfs::vfs::MemfsGuard'
ENTRY = 'sys::fs::memfs::entry::MemfsEntry'
FILE = 'sys::fs::memfs::file::MemfsFile'
INNER = 'sys::fs::memfs::vfs::MemfsInner'
MEMFS = 'sys::fs::memfs::vfs::Memfs'
TRY_BRANCH = '<std::result::Result<T, E> as std::ops::Try>::branch'
STATE_GETTERS = ('get_entry_mut', 'get_file_mut')


class Mutation:
    def __init__(self, F, cg):
        self.F = F
        self.cg = cg
        self.never_err = cg.never_err()
        self.accessor_mutators = set()   # MemfsGuard methods that change the maps / cwd
        self.entry_mutators = set()      # MemfsEntry / MemfsFile methods taking &mut self
        for n, b in F.bodies.items():
            ins = b.get('inputs') or []
            if not ins:
                continue
            if b.get('impl_self', '').startswith(GUARD) and ins[0].startswith('&mut ' + GUARD) and '&mut' not in b.get('output', '') and '&' not in b.get('output', ''):
                self.accessor_mutators.add(n)
            if b.get('impl_self') in (ENTRY, FILE) and not b.get('impl_trait') and ins[0] in ('&mut ' + ENTRY, '&mut ' + FILE):
                self.entry_mutators.add(n)
        self._summ = {}

    # ---------------------------------------------------------------- receiver provenance
    def state_derived(self, B, o):
        """the reference operand points into the shared state (result of get_entry_mut / get_file_mut, or a &mut parameter)"""
        def transparent(t):
            c = callee_of(t) or ''
            if c == TRY_BRANCH or c.endswith('::deref_mut') or c.endswith('::deref') or c.endswith('>::as_mut') or c.endswith('>::unwrap'):
                return [0]
            return None
        for r in B.op_origins(o, transparent):
            if r[0] == 'call':
                c = callee_of(B.term(r[1])) or ''
                if c.split('::')[-1] in STATE_GETTERS or c.endswith('HashMap<K, V, S, A>>::get_mut'):
                    return True
            if r[0] == 'arg':
                ty = B.local_ty(r[1])
                if ty.startswith('&mut ') and any(x in ty for x in (ENTRY, FILE, INNER, GUARD)):
                    return True
        return False

    # ------------------------------------------------------------------------ events
    def events(self, name):
        """list of (bb, kind, what, ok_only_callee or None) mutation events of one body"""
        B = self.cg.body(name)
        ev = []
        for i, t in B.calls():
            c = callee_of(t) or ''
            if c in self.accessor_mutators:
                ev.append((i, 'accessor', c.split('::')[-1], None))
            elif c in self.entry_mutators:
                if t['args'] and self.state_derived(B, t['args'][0]):
                    ev.append((i, 'entry', c.split('::')[-1], c))
            elif c in self.F.bodies:
                b = self.F.bodies[c]
                if any(x.startswith('&mut ' + GUARD) for x in (b.get('inputs') or [])) and c not in self.accessor_mutators and not b.get('impl_self', '').startswith(GUARD):
                    if self.may_mutate(c):
                        ev.append((i, 'callee', c.split('::')[-1], c))
            else:
                # external call taking a &mut into shared state (HashSet::insert on entry.files, Vec::extend on file.data ...)
                for ai, a in enumerate(t['args']):
                    ty = t['arg_tys'][ai]
                    if ty.startswith('&mut ') and self.state_derived(B, a):
                        d = describe_operand(B, a)
                        if c.split('::')[-1] in ('deref_mut', 'as_mut', 'get_mut', 'iter_mut', 'borrow_mut'):
                            continue
                        ev.append((i, 'extern', '%s(%s)' % (c.split('::')[-1], d), None))
                        break
        for i, j, s in B.assigns():
            pl = s['place']
            if any(e['k'] == 'deref' for e in pl['p']) and pl['p'][-1]['k'] == 'field':
                base_ty = B.local_ty(pl['l'])
                if base_ty.startswith('&mut ') and any(x in base_ty for x in (ENTRY, FILE, INNER)):
                    if self.state_derived(B, {'k': 'copy', 'place': {'l': pl['l'], 'p': []}}):
                        ev.append((i, 'assign', place_key(pl).split('.')[-1] + ' =', None))
        return ev

    def may_mutate(self, name, _stack=()):
        if name in self._summ:
            return self._summ[name]
        if name in _stack:
            return False
        self._summ[name] = False
        r = bool(self.events(name))
        self._summ[name] = r
        return r

    # ------------------------------------------------------------------ err blocks
    def err_blocks(self, B):
        """blocks in which the return place receives an error: (bb, description, via_call or None)"""
        out = []
        if not B.b.get('output', '').startswith('std::result::Result<'):
            return out
        for i, j, s in B.assigns():
            if s['place']['l'] == 0 and not s['place']['p'] and s['rv']['k'] == 'aggregate' and s['rv'].get('variant') == 'Err':
                out.append((i, 'Err(%s)' % sdesc_operand(B, s['rv']['ops'][0]), None))
        for i, t in B.calls():
            if t['dest']['l'] == 0 and not t['dest']['p']:
                c = callee_of(t) or ''
                if c.endswith('FromResidual>::from_residual'):
                    out.append((i, '?(%s)' % self._residual_source(B, t), None))
                elif c not in self.never_err and (self.F.bodies.get(c, {}).get('output', '').startswith('std::result::Result<') or c not in self.F.bodies):
                    out.append((i, 'tail(%s)' % c.split('::')[-1], c))
        return out

    def _residual_source(self, B, t):
        """name of the call whose error the `?` propagates"""
        l = op_local(t['args'][0])
        for _ in range(6):
            if l is None:
                break
            ds = B.whole_defs(l)
            if len(ds) != 1:
                break
            d = ds[0]
            if d[0] == 'call':
                c = callee_of(d[3]) or ''
                if c == TRY_BRANCH:
                    l = op_local(d[3]['args'][0])
                    continue
                a0 = sdesc_operand(B, d[3]['args'][0]) if d[3]['args'] else ''
                if c in self.F.bodies and self.F.bodies[c].get('impl_self') == MEMFS:
                    a0 = ''    # receiver is always self
                return '%s(%s)' % (c.split('::')[-1], a0) if a0 else c.split('::')[-1]
            rv = d[4]
            if rv['k'] == 'use':
                p = op_place(rv['op'])
                l = p['l'] if p else None
                continue
            break
        return '?'

    # ------------------------------------------------------------------ the rule
    def ok_continuation(self, B, call_bb):
        """if the result of the call at call_bb is consumed by `?`, return (switch_bb, continue_target), else None"""
        t = B.term(call_bb)
        dl = t['dest']['l']
        nxt = t.get('target')
        if nxt is None:
            return None
        t2 = B.term(nxt)
        if t2['k'] == 'call' and callee_of(t2) == TRY_BRANCH and op_local(t2['args'][0]) == dl:
            sw = t2.get('target')
            if sw is not None and B.term(sw)['k'] == 'switch':
                for v, tb in B.term(sw)['targets']:
                    if v == '0':
                        return (sw, tb)
        return None

    def check(self, name, ok_only):
        """returns list of violations (mut_bb, what, err_bb, err_desc, path) for one body.
        ok_only: set of callee names known to mutate only when they return Ok"""
        B = self.cg.body(name)
        errs = self.err_blocks(B)
        if not errs:
            return []
        starts = []   # (start block, description, origin event bb)
        for (bb, kind, what, callee) in self.events(name):
            if callee is not None and callee in ok_only:
                oc = self.ok_continuation(B, bb)
                if oc:
                    starts.append((oc[1], what, bb, callee))
                    continue
                t = B.term(bb)
                if t['dest']['l'] == 0 and not t['dest']['p']:
                    continue    # tail call of an ok-only mutator: its Err means it did not mutate
            t = B.term(bb)
            if t.get('target') is not None:
                starts.append((t['target'], what, bb, callee))
            elif kind == 'assign':
                starts.append((bb, what, bb, None))
        out = []
        for (sb, what, mbb, callee) in starts:
            reach = B.reachable_from(sb)
            for (eb, edesc, via) in errs:
                if eb in reach:
                    if eb == mbb:
                        continue
                    path = B.path(sb, eb) or [sb, eb]
                    out.append((mbb, what, eb, edesc, path))
        return out


SINGLE_TARGET = ['mkfile', 'mkdir_p', 'mkdir_m', 'write_all', 'append_all', 'remove', 'move_p', 'symlink', 'set_cwd']
TRAIT = 'sys::fs::vfs::VirtualFileSystem'


def fail_atomic(rep, F, cg, only=None, rule='FAIL-ATOMIC'):
    """one obligation per (function, error exit) for the functions reachable from the single-target operations that may mutate the tree"""
    rep.rule(rule, 'in every body that owns or receives a write guard and is reachable from a single-target operation (mkfile, mkdir_p/mkdir_m, '
             'write_all, append_all, remove, move_p, symlink, set_cwd), no path runs a mutator (insert/remove of an entry or file record, set_cwd, a '
             'write through get_entry_mut/get_file_mut, or the Ok-continuation of a callee that mutates only when it returns Ok) and afterwards '
             'reaches an Err return: a call that reports failure must leave the tree as it was')
    M = Mutation(F, cg)
    exc = engine.load_table('failatomic_excuses.json')
    cands = [n for n in cg.names() if M.may_mutate(n) and n not in M.accessor_mutators]
    ok_only = set(cands)

    def findings(n):
        out = {}
        for (mbb, what, eb, edesc, path) in M.check(n, ok_only):
            out.setdefault((eb, edesc), []).append((mbb, what, path))
        return out

    def dominating_calls(n):
        """structural keys of the calls that dominate every mutation event of n (validations done before any change)"""
        B = cg.body(n)
        muts = [e[0] for e in M.events(n)]
        return {skey_call(B, t) for i, t in B.calls() if muts and all(B.dominates(i, m) and i != m for m in muts)}

    def excuse_for(n, edesc):
        """(reason, problem) — an excuse may require validations that must dominate all mutations of the function"""
        ek = '%s|%s' % (n, edesc)
        if ek not in exc:
            return None, None
        e = exc[ek]
        if isinstance(e, str):
            return e, None
        need = e.get('requires_before_mutation', [])
        have = dominating_calls(n)
        miss = [x for x in need if not any(re.search(x, h) for h in have)]
        if miss:
            return e['reason'], 'the excuse relies on validation(s) %s dominating every mutation, but they do not' % miss
        for group in e.get('requires_same_operands', []):
            # the named calls made BEFORE any mutation must all be applied to the same operands (e.g. `x != s && x.starts_with(s)`)
            ops = {}
            Bn = cg.body(n)
            after = set()
            for ev in M.events(n):
                after |= Bn.reachable_from(ev[0])
            pre_calls = {skey_call(Bn, t) for i, t in Bn.calls() if i not in after}
            for h in pre_calls:
                m = re.match(r'^(\w+)\((.*)\)$', h)
                if m and m.group(1) in group:
                    ops.setdefault(m.group(1), set()).add(m.group(2))
            if any(g not in ops for g in group):
                return e['reason'], 'the excuse relies on the validations %s dominating every mutation, but %s is missing' % (group, [g for g in group if g not in ops])
            common = set.intersection(*(ops[g] for g in group))
            if not common:
                return e['reason'], 'the excuse relies on %s testing the SAME operands, but they test %s' % (group, {g: sorted(ops[g]) for g in group})
        return e['reason'], None

    def unexcused(n):
        return [k for k in findings(n) if excuse_for(n, k[1])[0] is None or excuse_for(n, k[1])[1] is not None]
    changed = True
    while changed:
        changed = False
        for n in list(ok_only):
            if unexcused(n):
                ok_only.discard(n)
                changed = True
    # armed set: reachable from the single-target operations
    roots = ['<%s as %s>::%s' % (MEMFS, TRAIT, m) for m in SINGLE_TARGET]
    missing = [r for r in roots if r not in F.bodies]
    for r in missing:
        rep.add(rule, 'failatomic:missing:%s' % r, 'single-target operation %s exists' % r, False, detail='anchor %s not found' % r)
    armed = set()
    work = [r for r in roots if r in F.bodies]
    while work:
        x = work.pop()
        if x in armed:
            continue
        armed.add(x)
        for e in cg.edges(x):
            if e.kind == 'call' and e.target in cands and e.target not in armed:
                work.append(e.target)
    if only is not None:
        armed = {n for n in armed if n in only}
    n_err = 0
    n_mut = 0
    for n in sorted(armed):
        if n not in cands:
            continue
        B = cg.body(n)
        errs = M.err_blocks(B)
        evs = M.events(n)
        n_mut += len(evs)
        f = findings(n)
        for (eb, edesc, via) in errs:
            n_err += 1
            key = 'failatomic:%s|%s' % (n, edesc)
            desc = 'error exit %s of %s is not reachable after a mutation' % (edesc, n)
            hits = f.get((eb, edesc))
            if not hits:
                rep.add(rule, key, desc, True, B.loc(eb))
                continue
            ek = '%s|%s' % (n, edesc)
            muts = sorted({'%s at %s' % (w, B.loc(mb)) for (mb, w, p) in hits})
            wit = ['mutation: %s' % m for m in muts] + ['path: ' + ' -> '.join('bb%d' % x for x in hits[0][2][:12])]
            reason, problem = excuse_for(n, edesc)
            if reason is not None and problem is None:
                o = rep.excuse(rule, key, desc, reason, B.loc(eb), 'reachable after: ' + '; '.join(muts))
            else:
                rep.add(rule, key, desc, False, B.loc(eb),
                        '%s can return %s after it has already changed the tree (%s): a failed call does not leave the filesystem as it was%s' % (
                            n, edesc, '; '.join(muts), ' [' + problem + ']' if problem else ''), wit)
    rep.analysed['fail_atomic_bodies'] = sorted(armed & set(cands))
    rep.analysed['mutates_only_on_ok'] = sorted(ok_only)
    rep.floor(rule, 'error exits in mutating bodies', n_err, 10 if only is None else 5)
    rep.floor(rule, 'mutation events', n_mut, 12 if only is None else 4)
    # evidence only: multi-target operations
    other = []
    for n in cands:
        if n not in armed and F.bodies[n].get('impl_self') == MEMFS:
            u = unexcused(n)
            if u:
                other.append('%s: %s' % (n.split('::')[-1], ', '.join(sorted({k[1] for k in u}))))
    if other:
        rep.note('mutate-then-Err paths in multi-target / handle operations outside the property\'s list (evidence only): ' + ' | '.join(other))
    return M, ok_only


# ======================================================================================= WHO-WRITES
def field_writers(F, cg, adt, field):
    """bodies that may write field `field` of `adt`: assignment into it, a mutable borrow of it (or of something inside it),
    or construction of the ADT"""
    out = defaultdict(list)
    for n in cg.names():
        B = cg.body(n)
        for i, j, s in B.assigns():
            pl = s['place']
            if any(e['k'] == 'field' and e.get('adt') == adt and e.get('name') == field for e in pl['p']):
                out[n].append(('assign', B.loc(i)))
            rv = s['rv']
            if rv['k'] in ('ref', 'rawptr') and rv.get('mut', True):
                if any(e['k'] == 'field' and e.get('adt') == adt and e.get('name') == field for e in rv['place']['p']):
                    out[n].append(('&mut', B.loc(i)))
            if rv['k'] == 'aggregate' and rv.get('adt') == adt and field in rv.get('fields', []):
                out[n].append(('construct', B.loc(i)))
    return out


def who_writes(rep, F, cg, table, rule='WHO-WRITES'):
    """table: 'Adt.field' -> {adt, field, allowed: [body names], reason}"""
    rep.rule(rule, 'each bookkeeping field is written (assigned, mutably borrowed or constructed) only by the functions frozen in tables/who_writes.json '
             '(the accessor layer and the entry\'s own add/remove/set_mode/build/clone); a new writer elsewhere bypasses the pairing and type-bit logic')
    n = 0
    for key, spec in sorted(table.items()):
        w = field_writers(F, cg, spec['adt'], spec['field'])
        allowed = set(spec['allowed'])
        for body, sites in sorted(w.items()):
            n += 1
            ok = body in allowed
            rep.add(rule, 'whowrites:%s:%s' % (key, body), '%s is written by %s, which is an allowed writer (%s)' % (key, body, spec['reason']), ok,
                    sites[0][1], '' if ok else '%s writes %s (%s at %s) but is not one of its owners %s' % (
                        body, key, sites[0][0], sites[0][1], sorted(x.split('::')[-1] for x in allowed)))
        missing = allowed - set(w)
        for m in sorted(missing):
            if m not in F.bodies:
                rep.add(rule, 'whowrites:%s:anchor:%s' % (key, m), 'allowed writer %s of %s exists' % (m, key), False,
                        detail='allowed writer %s not found: the frozen table no longer matches the code (renamed?)' % m)
    rep.floor(rule, 'field writer instances', n, 15)


# ============================================================================================= PAIR
class PairCheck:
    def __init__(self, F, cg, M):
        self.F = F
        self.cg = cg
        self.M = M

    def loop_head(self, B, bb):
        """innermost loop head dominating bb (target of a back edge whose source it dominates), or 0"""
        heads = []
        for x in B.normal:
            for s in B.succs(x):
                if B.dominates(s, x) and B.dominates(s, bb) and bb in B.reachable_from(s):
                    # bb must be inside the loop: bb reaches x
                    if x in B.reachable_from(bb):
                        heads.append(s)
        if not heads:
            return 0
        return max(heads, key=lambda h: len(B.dom[h]))

    def call_blocks(self, B, pred):
        return [i for i, t in B.calls() if pred(B, i, t)]

    def escape_edges(self, B, unless):
        """set of (bb, target) edges that count as legitimate alternatives.
        unless: list of ('none', callee_suffix) | ('false'|'true', regex on the test description)"""
        from panics import describe_local
        out = set()
        for d in B.normal:
            t = B.term(d)
            if t['k'] != 'switch':
                continue
            dl = op_local(t['discr'])
            if t['discr']['k'] not in ('copy', 'move'):
                continue
            for kind, pat in unless:
                if kind == 'none':
                    # switch on discriminant of an Option returned by call `pat`
                    if dl is None:
                        continue
                    src = None
                    for s in B.blocks[d]['stmts']:
                        if s['k'] == 'assign' and s['place']['l'] == dl and s['rv']['k'] == 'discr':
                            src = s['rv']['place']
                    if src is None or src['p']:
                        continue
                    ds = B.whole_defs(src['l'])
                    if len(ds) == 1 and ds[0][0] == 'call' and (callee_of(ds[0][3]) or '').endswith(pat):
                        for v, tb in t['targets']:
                            if v == '0':
                                out.add((d, tb))
                        if not any(v == '0' for v, tb in t['targets']):
                            out.add((d, t['otherwise']))
                elif t.get('discr_ty') == 'bool':
                    from panics import describe_operand as _dop
                    desc = _dop(B, t['discr'])
                    neg = False
                    while desc.startswith('Not(') and desc.endswith(')'):
                        desc = desc[4:-1]
                        neg = not neg
                    if re.search(pat, desc):
                        false_t = [tb for v, tb in t['targets'] if v == '0']
                        one_t = [tb for v, tb in t['targets'] if v == '1']
                        true_t = one_t[0] if one_t else t['otherwise']
                        want_true = (kind == 'true') != neg
                        if want_true:
                            out.add((d, true_t))
                        elif false_t:
                            out.add((d, false_t[0]))
        return out

    def path_avoiding(self, B, starts, stops, must_blocks, escapes, barrier=()):
        """a path from one of `starts` to one of `stops` that passes no must block and no escape edge; None if there is none"""
        from collections import deque
        prev = {}
        dq = deque()
        for s in starts:
            if s in must_blocks:
                continue
            prev[s] = None
            dq.append(s)
        while dq:
            x = dq.popleft()
            if x in stops and prev[x] is not None or (x in stops and x in starts):
                path = []
                cur = x
                while cur is not None:
                    path.append(cur)
                    cur = prev[cur]
                return list(reversed(path))
            for nx in B.succs(x):
                if (x, nx) in escapes or nx in prev or nx in barrier:
                    continue
                if nx in must_blocks:
                    continue
                prev[nx] = x
                dq.append(nx)
        return None

    def before(self, rep, rule, key, fn, anchor_pred, must_pred, unless, what):
        """every path of one iteration to the anchor call passes a `must` call or an escape edge"""
        if fn not in self.F.bodies:
            rep.add(rule, key, '%s exists' % fn, False, detail='anchor function %s not found' % fn)
            return
        B = self.cg.body(fn)
        anchors = self.call_blocks(B, anchor_pred)
        if not anchors:
            rep.add(rule, key, what, False, '%s:%d' % (B.file, B.line), 'anchor call not found in %s (the bookkeeping step is gone or renamed)' % fn)
            return
        must = set(self.call_blocks(B, must_pred))
        esc = self.escape_edges(B, unless)
        for a in anchors:
            head = self.loop_head(B, a)
            starts = [head] if head else [0]
            p = self.path_avoiding(B, starts, {a}, must, esc)
            ok = p is None
            rep.add(rule, key, what, ok, B.loc(a), '' if ok else '%s: a path reaches the %s at %s without the paired update' % (fn, 'anchor call', B.loc(a)),
                    [] if ok else ['path: ' + ' -> '.join('bb%d(%s)' % (x, B.loc(x).split(':')[-1]) for x in p[:14])])

    def after(self, rep, rule, key, fn, anchor_pred, must_pred, unless, what, ok_edge_only=True):
        """every path from the anchor call's continuation to a normal return (or the next iteration) passes a `must` call or an escape edge"""
        if fn not in self.F.bodies:
            rep.add(rule, key, '%s exists' % fn, False, detail='anchor function %s not found' % fn)
            return
        B = self.cg.body(fn)
        anchors = self.call_blocks(B, anchor_pred)
        if not anchors:
            rep.add(rule, key, what, False, '%s:%d' % (B.file, B.line), 'anchor call not found in %s (the bookkeeping step is gone or renamed)' % fn)
            return
        must = set(self.call_blocks(B, must_pred))
        esc = self.escape_edges(B, unless)
        errs = {eb for (eb, d, v) in self.M.err_blocks(B)}
        ok_returns = set()
        # normal returns: return blocks reachable without passing an err block
        for a in anchors:
            t = B.term(a)
            start = t.get('target')
            oc = self.M.ok_continuation(B, a)
            if oc:
                start = oc[1]
            head = self.loop_head(B, a)
            stops = set(B.exits)
            if head:
                stops.add(head)
            p = self.path_avoiding(B, [start], stops, must, esc, barrier=errs)
            ok = p is None
            rep.add(rule, key, what, ok, B.loc(a), '' if ok else '%s: after the call at %s a path completes the operation without the paired update' % (fn, B.loc(a)),
                    [] if ok else ['path: ' + ' -> '.join('bb%d(%s)' % (x, B.loc(x).split(':')[-1]) for x in p[:14])])


# ======================================================================================== WHO-CALLS
def callers_of(F, cg, callee):
    out = defaultdict(list)
    for n in cg.names():
        B = cg.body(n)
        for i, t in B.calls():
            if (callee_of(t) or '') == callee:
                out[n].append(B.loc(i))
    return out


def who_calls(rep, F, cg, table, rule='WHO-CALLS'):
    """table: callee -> {allowed: [callers], reason}"""
    rep.rule(rule, 'each mutating accessor of the shared state (insert/remove of entries and data records, set_cwd, the *_mut getters) is called only from the '
             'bookkeeping functions frozen in tables/who_calls.json; a new caller elsewhere writes an index outside the pairing / validation logic')
    n = 0
    for callee, spec in sorted(table.items()):
        if callee not in F.bodies:
            rep.add(rule, 'whocalls:%s:anchor' % callee, 'accessor %s exists' % callee, False, detail='accessor %s not found (renamed?)' % callee)
            continue
        cs = callers_of(F, cg, callee)
        allowed = set(spec['allowed'])
        for caller, locs in sorted(cs.items()):
            n += 1
            ok = caller in allowed
            rep.add(rule, 'whocalls:%s<-%s' % (callee.split('::')[-1], caller), '%s is called by %s, an allowed caller (%s)' % (callee.split('::')[-1], caller, spec['reason']),
                    ok, locs[0], '' if ok else '%s calls %s (at %s) but is not one of its frozen callers %s' % (
                        caller, callee.split('::')[-1], locs[0], sorted(x.split('::')[-1] for x in allowed)))
    rep.floor(rule, 'accessor call sites', n, 12)
