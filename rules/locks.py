"""Lock discipline rules for the single Memfs RwLock: guard-live regions, LOCK-NEST, LOCK-OWN, LOCK-ONCE, FS-NONE."""
import re
from collections import defaultdict
from mir import Body, op_place, op_local, place_key, callee_of
from callgraph import CallGraph, dyn_key

ACQUIRE = ('<std::sync::RwLock<T>>::read', '<std::sync::RwLock<T>>::write',
           '<std::sync::RwLock<T>>::try_read', '<std::sync::RwLock<T>>::try_write')
GUARD_ADTS = ('sys::fs::memfs::vfs::MemfsGuard', 'std::sync::RwLockReadGuard', 'std::sync::RwLockWriteGuard')
BLOCKING = re.compile(r'^(std::thread::sleep|std::thread::park|<std::sync::Mutex<T>>::lock|<std::sync::Condvar>::wait|'
                      r'<std::sync::mpsc::Receiver<T>>::recv|<std::thread::JoinHandle<T>>::join|std::thread::yield_now|'
                      r'<std::sync::Barrier>::wait|<std::sync::Once>::call_once)')


def is_guard_local(B, l):
    loc = B.locals[l]
    ty = loc['ty']
    if ty.startswith('&') or ty.startswith('*'):
        return False
    return any(a in GUARD_ADTS for a in loc['facts']['adts'])


def guard_kind(B, l):
    """'write' | 'read' | 'either' for a guard-holding local"""
    ty = B.locals[l]['ty']
    if 'RwLockWriteGuard' in ty:
        return 'write'
    if 'RwLockReadGuard' in ty:
        return 'read'
    return 'either'


class Region:
    """program points at which a guard-holding local is live (lock held)"""

    def __init__(self, B, local, start_desc):
        self.B = B
        self.local = local
        self.start_desc = start_desc
        self.points = []        # (bb, 'term') check points: terminators executed while the guard is live
        self.stmt_points = []   # (bb, idx)
        self.blocks = set()
        self.kind = 'either'
        self.acquired_by = None


def _moves_local(o, l):
    return o['k'] == 'move' and o['place']['l'] == l and not o['place']['p']


def _stmt_moves(s, l):
    if s['k'] != 'assign':
        return False
    rv = s['rv']
    k = rv['k']
    ops = []
    if k == 'use':
        ops = [rv['op']]
    elif k == 'aggregate':
        ops = rv['ops']
    elif k == 'cast':
        ops = [rv['op']]
    return any(_moves_local(o, l) for o in ops)


def guard_regions(B):
    """one Region per definition of a guard-holding local"""
    regions = []
    for l in range(len(B.locals)):
        if not is_guard_local(B, l):
            continue
        starts = []   # (bb, stmt_index_after or None for block start, description)
        for d in B.whole_defs(l):
            if d[0] == 'call':
                t = d[3]
                if t.get('target') is not None:
                    starts.append((t['target'], 0, 'call %s at %s' % (callee_of(t), B.loc(d[1])), callee_of(t)))
            else:
                starts.append((d[1], d[2] + 1, 'assignment at %s' % B.loc(d[1]), None))
        if 1 <= l <= B.nargs:
            starts.append((0, 0, 'parameter', None))
        for (sb, si, desc, acq) in starts:
            R = Region(B, l, desc)
            R.kind = guard_kind(B, l)
            R.acquired_by = acq
            seen = set()
            work = [(sb, si)]
            while work:
                bb, idx = work.pop()
                if (bb, idx) in seen:
                    continue
                seen.add((bb, idx))
                blk = B.blocks[bb]
                ended = False
                for j in range(idx, len(blk['stmts'])):
                    s = blk['stmts'][j]
                    if _stmt_moves(s, l):
                        ended = True
                        break
                    if s['k'] == 'assign' and s['place']['l'] == l and not s['place']['p']:
                        ended = True   # re-defined: another region starts there
                        break
                    R.stmt_points.append((bb, j))
                if ended:
                    continue
                R.blocks.add(bb)
                t = blk['term']
                k = t['k']
                if k == 'drop' and t['place']['l'] == l and not t['place']['p']:
                    continue
                if k == 'call' and any(_moves_local(a, l) for a in t['args']):
                    continue
                if k == 'return':
                    continue
                R.points.append(bb)
                for s in B.succs(bb):
                    work.append((s, 0))
            regions.append(R)
    return regions


class Locks:
    def __init__(self, F, cg=None):
        self.F = F
        self.cg = cg or CallGraph(F)
        self.prim = set()          # bodies that call the RwLock API directly
        self.prim_sites = []       # (body, bb, callee)
        for n in self.cg.names():
            B = self.cg.body(n)
            for i, t in B.calls():
                c = t.get('callee') or ''
                r = t.get('resolved') or ''
                if c in ACQUIRE or r in ACQUIRE:
                    self.prim.add(n)
                    self.prim_sites.append((n, i, c or r))
        self._may = {}

    def may_acquire(self, edge_filter=None, tag='all'):
        if tag not in self._may:
            self._may[tag] = self.cg.closure(self.prim, edge_filter)
        return self._may[tag]

    def witness(self, start, edge_filter=None):
        path, goal = self.cg.reach_path(start, lambda n: n in self.prim, edge_filter)
        if path is None:
            return []
        w = []
        for (p, e) in path:
            B = self.cg.body(p)
            w.append('%s  --%s at %s-->  %s' % (p, e.kind, B.loc(e.bb), e.target))
        if goal:
            for (n, i, c) in self.prim_sites:
                if n == goal:
                    w.append('%s calls %s at %s' % (n, c, self.cg.body(n).loc(i)))
                    break
        return w


# ======================================================================================= FS-NONE
MEMFS_FILE = 'sys::fs::memfs::file::MemfsFile'


def _is_none_operand(B, o):
    """operand is provably Option::None"""
    if o['k'] == 'const':
        return False
    l = op_local(o)
    if l is None:
        return False
    ds = B.whole_defs(l)
    if len(ds) == 1 and ds[0][0] == 'call':
        return callee_of(ds[0][3]) == '<std::option::Option<T> as std::default::Default>::default'
    if len(ds) != 1 or ds[0][0] != 'assign':
        return False
    rv = ds[0][4]
    if rv['k'] == 'aggregate' and rv.get('adt') == 'std::option::Option' and rv.get('variant') == 'None':
        return True
    if rv['k'] == 'use':
        return _is_none_operand(B, rv['op'])
    return False


class FsNone:
    """stored-origin MemfsFile values carry no filesystem back reference (fs == None), so their destructor and
    `sync` cannot reach the lock.  Handle-origin values (fs possibly Some) are tracked as a per-body taint."""

    def __init__(self, F, cg):
        self.F = F
        self.cg = cg
        self.taint = {}            # body -> set(local)
        self.param_taint = defaultdict(set)   # body -> parameter locals that may receive a handle from some call site
        self.handle_returning = set()
        self.obligations = []      # (key, desc, ok, where, detail)
        self._run()

    def _mentions_file(self, facts, ty):
        return MEMFS_FILE in facts.get('adts', []) or 'dyn std::io::Write' in ty or 'dyn sys::fs::vfs::ReadSeek' in ty

    def _seed_and_propagate(self, name):
        B = self.cg.body(name)
        t = set()
        # seeds
        for i, j, s in B.assigns():
            pl = s['place']
            rv = s['rv']
            if pl['p'] and pl['p'][-1]['k'] == 'field' and pl['p'][-1].get('name') == 'fs' and pl['p'][-1].get('adt') == MEMFS_FILE:
                is_none = rv['k'] == 'use' and _is_none_operand(B, rv['op'])
                if rv['k'] == 'aggregate' and rv.get('adt') == 'std::option::Option' and rv.get('variant') == 'None':
                    is_none = True
                if not is_none:
                    t.add(pl['l'])
            if rv['k'] == 'aggregate' and rv.get('adt') == MEMFS_FILE:
                idx = rv['fields'].index('fs')
                o = rv['ops'][idx]
                if not _is_none_operand(B, o) and not self._fs_of_arg1(B, o):
                    t.add(pl['l'])
        for i, term in B.calls():
            c = callee_of(term)
            if c in self.handle_returning:
                t.add(term['dest']['l'])
        for pi in self.param_taint.get(name, ()):
            t.add(pi)
        # propagation (flow-insensitive)
        changed = True
        while changed:
            changed = False
            for i, j, s in B.assigns():
                rv = s['rv']
                k = rv['k']
                srcs = []
                if k in ('use', 'cast'):
                    srcs = [rv['op']]
                elif k in ('ref', 'copyforderef'):
                    srcs = [{'k': 'copy', 'place': rv['place']}]
                elif k == 'aggregate':
                    srcs = rv['ops']
                for o in srcs:
                    p = op_place(o)
                    if p is not None and p['l'] in t and s['place']['l'] not in t:
                        t.add(s['place']['l'])
                        changed = True
            for i, term in B.calls():
                d = term['dest']['l']
                if d in t:
                    continue
                if not self._mentions_file(B.locals[d]['facts'], B.locals[d]['ty']):
                    continue
                for a in term['args']:
                    p = op_place(a)
                    if p is not None and p['l'] in t:
                        t.add(d)
                        changed = True
                        break
        return t

    OPTION_SHAPE_PRESERVING = ('<std::option::Option<T>>::as_ref', '<std::option::Option<T>>::map', '<std::option::Option<T>>::cloned',
                               '<std::option::Option<T> as std::clone::Clone>::clone', '<std::option::Option<&T>>::cloned')

    def _fs_of_arg1(self, B, o):
        """the operand is Some exactly when (*arg1).fs is Some (a state-preserving copy such as Clone::clone)"""
        l = op_local(o)
        if l is None:
            return False
        seen = set()
        cur = l
        for _ in range(20):
            ds = B.whole_defs(cur)
            if len(ds) != 1:
                return False
            d = ds[0]
            if d[0] == 'call':
                t = d[3]
                if callee_of(t) not in self.OPTION_SHAPE_PRESERVING:
                    return False
                nxt = op_local(t['args'][0])
                if nxt is None:
                    return False
                cur = nxt
                continue
            rv = d[4]
            if rv['k'] in ('ref', 'copyforderef'):
                return B.norm_place(rv['place']) in ('(*arg1).fs', 'arg1.fs')
            if rv['k'] == 'use':
                p = op_place(rv['op'])
                if p is None:
                    return False
                if p['p']:
                    return B.norm_place(p) in ('(*arg1).fs', 'arg1.fs')
                cur = p['l']
                continue
            return False
        return False

    def _run(self):
        names = self.cg.names()
        changed = True
        rounds = 0
        while changed and rounds < 10:
            rounds += 1
            changed = False
            for n in names:
                t = self._seed_and_propagate(n)
                self.taint[n] = t
                if 0 in t and n not in self.handle_returning:
                    self.handle_returning.add(n)
                    changed = True
                B = self.cg.body(n)
                for i, term in B.calls():
                    c = callee_of(term)
                    if c in self.F.bodies:
                        for ai, a in enumerate(term['args']):
                            p = op_place(a)
                            if p is not None and p['l'] in t and (ai + 1) not in self.param_taint[c]:
                                self.param_taint[c].add(ai + 1)
                                changed = True
        self._obligations()

    def _obligations(self):
        F = self.F
        ob = self.obligations
        n_insert = 0
        for n in self.cg.names():
            B = self.cg.body(n)
            t = self.taint[n]
            for i, term in B.calls():
                c = callee_of(term) or ''
                is_insert_file = c.endswith('>::insert_file')
                is_map_insert = re.search(r'HashMap<[^>]*>>::insert$', term.get('callee') or '') is not None and any(MEMFS_FILE in a for a in term['arg_tys'])
                if is_insert_file or is_map_insert:
                    n_insert += 1
                    bad = [a for a in term['args'] if op_place(a) is not None and op_place(a)['l'] in t]
                    ob.append(('fsnone:insert:%s:%s' % (n, c.split('::')[-1]),
                               'the file stored by %s in %s is not a write/append handle (no `fs` back reference)' % (c, n),
                               not bad, B.loc(i),
                               '' if not bad else 'a MemfsFile with a possibly-Some `fs` is stored into the data map at %s; its destructor would take the lock while the map is being mutated' % B.loc(i)))
                if c in ('std::mem::swap', 'std::mem::replace', 'std::mem::take') and any(MEMFS_FILE in a for a in term['arg_tys']):
                    bad = [a for a in term['args'] if op_place(a) is not None and op_place(a)['l'] in t]
                    ob.append(('fsnone:swap:%s' % n, 'mem::swap/replace on MemfsFile values does not move a handle into storage', not bad, B.loc(i),
                               '' if not bad else 'handle-origin MemfsFile swapped at %s' % B.loc(i)))
            for i, j, s in B.assigns():
                pl = s['place']
                rv = s['rv']
                has_deref = any(e['k'] == 'deref' for e in pl['p'])
                # writes through a reference
                if has_deref and pl['p'][-1]['k'] == 'field' and pl['p'][-1].get('name') == 'fs' and pl['p'][-1].get('adt') == MEMFS_FILE:
                    is_none = (rv['k'] == 'use' and _is_none_operand(B, rv['op'])) or (
                        rv['k'] == 'aggregate' and rv.get('adt') == 'std::option::Option' and rv.get('variant') == 'None')
                    ob.append(('fsnone:fs-through-ref:%s' % n, '`fs` is written through a reference only with None (in %s)' % n, is_none, B.loc(i),
                               '' if is_none else '`.fs` of a MemfsFile behind a reference (possibly a stored file) is set to a non-None value at %s' % B.loc(i)))
                if has_deref and pl['p'][-1]['k'] == 'deref' and rv['k'] == 'use':
                    # *ref = value of type MemfsFile
                    p = op_place(rv['op'])
                    if p is not None and not p['p'] and B.locals[p['l']]['ty'] == MEMFS_FILE:
                        bad = p['l'] in t
                        ob.append(('fsnone:overwrite:%s' % n, 'a MemfsFile behind a reference is overwritten only with a non-handle value', not bad, B.loc(i),
                                   '' if not bad else 'handle-origin MemfsFile written through a reference at %s' % B.loc(i)))
                if rv['k'] == 'cast' and 'Unsize' in rv['cast'] and 'dyn sys::fs::vfs::ReadSeek' in rv['to'] and MEMFS_FILE in rv['from']:
                    p = op_place(rv['op'])
                    bad = p is not None and p['l'] in t
                    ob.append(('fsnone:readseek:%s' % n, 'the MemfsFile coerced to dyn ReadSeek in %s is not a write/append handle' % n, not bad, B.loc(i),
                               '' if not bad else 'a handle-origin MemfsFile (fs possibly Some) becomes a read handle at %s' % B.loc(i)))
        self.n_insert = n_insert
        # sync only reaches the lock under `fs == Some`
        syncs = [n for n in self.cg.names() if n in ('<%s>::sync' % MEMFS_FILE,)]
        for n in self.cg.names():
            b = F.bodies[n]
            if b.get('impl_self') != MEMFS_FILE:
                continue
            B = self.cg.body(n)
            for i, term in B.calls():
                c = callee_of(term) or ''
                if c.endswith('::write_guard') or c.endswith('::read_guard') or c in ACQUIRE:
                    ok = self._dominated_by_fs_some(B, i)
                    ob.append(('fsnone:sync-guard:%s' % n, 'in %s the lock is taken only under `self.fs == Some`' % n, ok, B.loc(i),
                               '' if ok else 'lock acquisition at %s is not dominated by the Some-arm of a test of self.fs' % B.loc(i)))

    def _dominated_by_fs_some(self, B, bb):
        for d in B.dom[bb]:
            t = B.term(d)
            if t['k'] != 'switch':
                continue
            dl = op_local(t['discr'])
            src = None
            for s in B.blocks[d]['stmts']:
                if s['k'] == 'assign' and s['place']['l'] == dl and s['rv']['k'] == 'discr':
                    src = B.norm_place(s['rv']['place'])
            if src in ('(*arg1).fs', 'arg1.fs'):
                some_targets = [tb for v, tb in t['targets'] if v == '1']
                if some_targets and all(B.dominates(tb, bb) for tb in some_targets):
                    return True
        return False

    def plain_site(self, name, bb):
        """the MemfsFile value dropped / used as receiver at this terminator is stored-origin (fs == None)"""
        B = self.cg.body(name)
        t = B.term(bb)
        tl = self.taint.get(name, set())
        if t['k'] == 'drop':
            if 'dyn std::io::Write' in t['ty']:
                return False
            if MEMFS_FILE in t['ty_facts']['adts'] or 'dyn sys::fs::vfs::ReadSeek' in t['ty']:
                return t['place']['l'] not in tl
            return True
        return False


# ============================================================================== analysis driver
ENTRIES = 'sys::fs::entries::Entries'
ENTRIES_ITER = 'sys::fs::entries::EntriesIter'
CLOSURE_FIELDS = ('pre_op', 'sort', 'filter', 'iter_from')


class LockAnalysis:
    def __init__(self, F):
        self.F = F
        self.cg = CallGraph(F)
        self.never_err, self.pruned = self.cg.prune_never_err()
        self.L = Locks(F, self.cg)
        self.fs = FsNone(F, self.cg)
        self.memfs_drop = '<%s as std::ops::Drop>::drop' % MEMFS_FILE
        self.pre_op_key = None
        for key, cands in self.cg.dyn_cands.items():
            if 'FnMut' in key and 'VfsEntry' in key and 'RvError' in key:
                self.pre_op_key = key
        self._neutral = None
        self._ctors = None
        self.typestate_sites = {}   # (caller, bb) -> (ok, why)
        self.may_plain = self.L.may_acquire(self.filter_plain, 'plain')
        self.may_nopre = self.L.may_acquire(self.filter_plain_nopre, 'nopre')
        self.may_all = self.L.may_acquire(self.filter_refined, 'refined')

    def filter_refined(self, caller, e):
        """plain-drop refinement + Entries typestate: a call into the traversal engine whose only way to the lock is a
        pre_op closure is not an acquisition when the iterated Entries provably has pre_op == None"""
        if not self.filter_plain(caller, e):
            return False
        if e.kind == 'call' and e.target in self.may_plain and e.target not in self.may_nopre and \
                self.F.bodies[e.target].get('impl_self') in (ENTRIES, ENTRIES_ITER) and \
                self.F.bodies[caller].get('impl_self') not in (ENTRIES, ENTRIES_ITER):
            key = (caller, e.bb)
            if key not in self.typestate_sites:
                self.typestate_sites[key] = self.entries_iter_private(caller, e.bb)
            if self.typestate_sites[key][0]:
                return False
        return True

    # plain (stored-origin) MemfsFile drops cannot reach the lock (FS-NONE)
    def filter_plain(self, caller, e):
        if e.kind == 'drop' and e.target == self.memfs_drop and self.fs.plain_site(caller, e.bb):
            return False
        return True

    def filter_plain_nopre(self, caller, e):
        if not self.filter_plain(caller, e):
            return False
        if e.kind == 'dyn' and e.via == self.pre_op_key:
            return False
        return True

    # -------------------------------------------------------------- Entries typestate
    def neutral_builders(self, mode='all'):
        """Entries / EntriesIter methods that take self by value, return it, and assign none of the closure fields
        (mode 'all': pre_op, sort, filter, iter_from and no closure parameter; mode 'pre_op': only pre_op matters).
        Local callees must themselves be neutral (fixpoint)."""
        if self._neutral is None:
            self._neutral = {}
        if mode in self._neutral:
            return self._neutral[mode]
        fields = CLOSURE_FIELDS if mode == 'all' else ('pre_op',)
        cand = {}
        for n in self.cg.names():
            b = self.F.bodies[n]
            if b.get('impl_self') not in (ENTRIES, ENTRIES_ITER) or b.get('impl_trait'):
                continue
            if not b.get('inputs') or b['inputs'][0] not in (ENTRIES, ENTRIES_ITER) or b.get('output') != b['inputs'][0]:
                continue
            B = self.cg.body(n)
            writes = False
            for i, j, s in B.assigns():
                for e in s['place']['p']:
                    if e['k'] == 'field' and e.get('name') in fields:
                        writes = True
            takes_closure = any('Fn' in p for p in b.get('preds', []))
            if writes or (mode == 'all' and takes_closure):
                continue
            cand[n] = [callee_of(t) for i, t in B.calls() if callee_of(t) in self.F.bodies]
        changed = True
        while changed:
            changed = False
            for n in list(cand):
                if any(c not in cand for c in cand[n]):
                    del cand[n]
                    changed = True
        self._neutral[mode] = set(cand)
        return self._neutral[mode]

    def closure_free_constructors(self):
        """functions that build an Entries whose pre_op and sort are None, and functions that return such a
        constructor's result unchanged"""
        if self._ctors is not None:
            return self._ctors
        out = set()
        for n in self.cg.names():
            B = self.cg.body(n)
            aggs = [(i, j, s) for i, j, s in B.assigns() if s['rv']['k'] == 'aggregate' and s['rv'].get('adt') == ENTRIES]
            if not aggs:
                continue
            ok = True
            for i, j, s in aggs:
                rv = s['rv']
                for fld in ('pre_op', 'sort'):
                    o = rv['ops'][rv['fields'].index(fld)]
                    if not _is_none_operand(B, o):
                        ok = False
            if ok:
                out.add(n)
        # wrappers: the return value originates only from constructor calls
        def transparent(term):
            if callee_of(term) == '<std::result::Result<T, E> as std::ops::Try>::branch':
                return [0]
            return None
        changed = True
        while changed:
            changed = False
            for n in self.cg.names():
                if n in out or ENTRIES not in self.F.bodies[n].get('output', ''):
                    continue
                B = self.cg.body(n)
                roots = B.origins(0, transparent)
                calls = [r for r in roots if r[0] == 'call']
                others = [r for r in roots if r[0] in ('arg',)]
                if calls and not others and all(callee_of(B.term(r[1])) in out for r in calls):
                    # no aggregate of Entries itself, no builder calls
                    if not any(s['rv']['k'] == 'aggregate' and s['rv'].get('adt') == ENTRIES for i, j, s in B.assigns()):
                        out.add(n)
                        changed = True
        self._ctors = out
        return out

    def entries_iter_private(self, name, bb, mode='pre_op'):
        """the EntriesIter receiver of the call at bb was built from a closure-free constructor through neutral
        builders only (mode 'pre_op': its pre_op is None; mode 'all': additionally its sort/filter closures are in-crate)"""
        B = self.cg.body(name)
        t = B.term(bb)
        if not t['args']:
            return False, 'no receiver'
        neutral = self.neutral_builders(mode)
        ctors = self.closure_free_constructors()
        into_iter = '<%s as std::iter::IntoIterator>::into_iter' % ENTRIES

        def transparent(term):
            c = callee_of(term)
            if c in neutral or c == into_iter:
                return [0]
            if c in ('<std::result::Result<T, E> as std::ops::Try>::branch', '<I as std::iter::IntoIterator>::into_iter'):
                return [0]
            return None
        roots = B.op_origins(t['args'][0], transparent)
        if not roots:
            return False, 'no provenance'
        for r in roots:
            if r[0] == 'call':
                c = callee_of(B.term(r[1]))
                if c not in ctors:
                    return False, 'iterated Entries may come from %s (at %s), which is not a closure-free constructor' % (c, B.loc(r[1]))
            elif r[0] in ('agg', 'op', 'const'):
                continue   # pieces of the Try::branch plumbing (discriminants etc.)
            else:
                return False, 'iterated Entries may come from %s' % (r,)
        return True, 'receiver built by %s through neutral builders' % ', '.join(sorted({callee_of(B.term(r[1])) for r in roots if r[0] == 'call'}))

    # ------------------------------------------------------------------- LOCK-NEST
    def region_findings(self, name, R):
        """(violations, typestate_discharges) for one guard-live region"""
        B = self.cg.body(name)
        viol = []
        disch = []
        by_bb = defaultdict(list)
        for e in self.cg.edges(name):
            by_bb[e.bb].append(e)
        for bb in sorted(set(R.points)):
            t = B.term(bb)
            if t['k'] == 'call':
                c = t.get('resolved') or t.get('callee') or ''
                if BLOCKING.match(c) or BLOCKING.match(t.get('callee') or ''):
                    viol.append((bb, 'blocking call %s while the guard is held' % c, []))
            for e in by_bb.get(bb, []):
                if not self.filter_plain(name, e):
                    continue
                if (name, bb) in self.typestate_sites and self.typestate_sites[(name, bb)][0] and not self.filter_refined(name, e):
                    disch.append((bb, e.target, self.typestate_sites[(name, bb)][1]))
                    continue
                if e.target in self.may_all:
                    if (name, bb) in self.typestate_sites and not self.typestate_sites[(name, bb)][0]:
                        viol.append((bb, '%s may run a pre_op closure that takes the lock: %s' % (e.target, self.typestate_sites[(name, bb)][1]),
                                     self.L.witness(e.target, self.filter_refined)))
                        continue
                    kind = {'call': 'call of', 'dyn': 'dynamic call reaching', 'generic': 'closure/fn argument', 'drop': 'drop glue running'}[e.kind]
                    viol.append((bb, '%s %s, which may acquire the Memfs lock, while a guard is held' % (kind, e.target),
                                 ['%s  --%s at %s-->  %s' % (name, e.kind, B.loc(bb), e.target)] + self.L.witness(e.target, self.filter_refined)))
        return viol, disch

    # ------------------------------------------------------------------- LOCK-ONCE
    def acquisitions(self, name, _stack=None, _memo=None):
        """abstract count (0, 1, 2 = two or more) of lock acquisitions along the worst path of one call of `name`,
        plus the acquisition sites.  Callee counts are added at call/drop sites; a loop containing an acquisition counts as 2."""
        if _memo is None:
            _memo = {}
        if name in _memo:
            return _memo[name]
        if _stack is None:
            _stack = set()
        if name in _stack:
            return (0, [])
        _stack = _stack | {name}
        B = self.cg.body(name)
        by_bb = defaultdict(list)
        for e in self.cg.edges(name):
            if self.filter_refined(name, e):
                by_bb[e.bb].append(e)
        w = {}      # bb -> (count, sites) contributed by the terminator
        for bb in B.normal:
            t = B.term(bb)
            cnt = 0
            sites = []
            if t['k'] == 'call':
                c = t.get('callee') or ''
                r = t.get('resolved') or ''
                if c in ACQUIRE or r in ACQUIRE:
                    cnt = 1
                    sites = ['%s at %s' % (c or r, B.loc(bb))]
            best = (0, [])
            for e in by_bb.get(bb, []):
                if e.target not in self.may_all:
                    continue
                sub = self.acquisitions(e.target, _stack, _memo)
                if sub[0] > best[0]:
                    best = (sub[0], ['%s --%s at %s--> %s' % (name.split('::')[-1], e.kind, B.loc(bb), e.target)] + sub[1])
            cnt += best[0]
            sites += best[1]
            w[bb] = (min(cnt, 2), sites)
        # longest path over the normal CFG; blocks in a cycle that acquire count twice
        sccs = _sccs(B)
        in_cycle = set()
        for comp in sccs:
            if len(comp) > 1 or any(x in B.succs(x) for x in comp):
                in_cycle |= set(comp)
        memo = {}

        def longest(bb, seen):
            if bb in memo:
                return memo[bb]
            c, s = w.get(bb, (0, []))
            if c and bb in in_cycle:
                c = 2
                s = s + ['(inside a loop)']
            best = (0, [])
            for nx in B.succs(bb):
                if nx in seen:
                    continue
                r = longest(nx, seen | {nx})
                if r[0] > best[0]:
                    best = r
            res = (min(2, c + best[0]), s + best[1])
            if not (seen & in_cycle):
                memo[bb] = res
            return res
        res = longest(0, {0})
        _memo[name] = res
        return res


def _sccs(B):
    """Tarjan over the normal CFG"""
    index = {}
    low = {}
    stack = []
    on = set()
    out = []
    counter = [0]
    import sys
    sys.setrecursionlimit(10000)

    def visit(v):
        index[v] = low[v] = counter[0]
        counter[0] += 1
        stack.append(v)
        on.add(v)
        for w_ in B.succs(v):
            if w_ not in index:
                visit(w_)
                low[v] = min(low[v], low[w_])
            elif w_ in on:
                low[v] = min(low[v], index[w_])
        if low[v] == index[v]:
            comp = []
            while True:
                x = stack.pop()
                on.discard(x)
                comp.append(x)
                if x == v:
                    break
            out.append(comp)
    for v in sorted(B.normal):
        if v not in index:
            visit(v)
    return out
