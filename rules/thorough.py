"""Thorough tier: the checker tested both ways on the CURRENT tree.
 (a) every patch under mutants/<ID>/ and seeded/<ID>*/patch.diff is applied to a scratch copy of the current /repo, the quick check is re-run on
     it (fresh extraction) and must report a violation; a patch whose anchor no longer applies is skipped; a mutant that is not reported is listed as
     MISSED in the evidence (and printed) but never turns into a VIOLATION of the unchanged tree;
 (b) the original, unrepaired commit (first commit of /repo) must be reported by the properties that had fixed findings;
 (c) cross-references: rustc's own `unsafe_code` lint and selected clippy lints run on a scratch copy (evidence only).
Nothing here executes rivia code: only cargo check / clippy and the rule engine run."""
import glob, json, os, shutil, subprocess, tempfile, time
from concurrent.futures import ThreadPoolExecutor

VERIF = os.path.dirname(os.path.dirname(os.path.abspath(__file__)))


def _scratch(repo):
    d = tempfile.mkdtemp(prefix='rivia-thorough-')
    subprocess.check_call(['rsync', '-a', '--exclude', 'target', '--exclude', '.git', repo.rstrip('/') + '/', d + '/'])
    return d


def _run_check(prop, repo_dir, timeout=600):
    env = dict(os.environ, VERIF_TIER='quick', VERIF_EVIDENCE_DIR=os.path.join(repo_dir, '.evidence'), VERIF_REPO=repo_dir)
    p = subprocess.run([os.path.join(VERIF, 'check'), prop, '--tier', 'quick', '--repo', repo_dir], cwd=VERIF, env=env,
                       stdout=subprocess.PIPE, stderr=subprocess.STDOUT, text=True, timeout=timeout)
    keys = []
    for line in p.stdout.splitlines():
        if line.rstrip().endswith(']') and '[' in line and 'VIOLATION' not in line and not line.rstrip().endswith('s]'):
            keys.append(line[line.rindex('[') + 1:-1])
    return p.returncode, keys, p.stdout[-2000:]


def _one_patch(prop, repo, patch):
    d = _scratch(repo)
    try:
        ap = subprocess.run(['patch', '-p1', '-s', '--no-backup-if-mismatch', '-i', patch], cwd=d, stdout=subprocess.PIPE, stderr=subprocess.STDOUT, text=True)
        if ap.returncode != 0:
            return {'patch': os.path.relpath(patch, VERIF), 'status': 'skipped', 'why': 'patch does not apply to the current tree'}
        rc, keys, tail = _run_check(prop, d)
        if 'EXTRACTION FAILED' in tail:
            return {'patch': os.path.relpath(patch, VERIF), 'status': 'skipped', 'why': 'patched tree does not compile'}
        return {'patch': os.path.relpath(patch, VERIF), 'status': 'detected' if rc == 1 else 'MISSED', 'reported': keys[:6]}
    finally:
        shutil.rmtree(d, ignore_errors=True)


def self_test(prop, repo):
    t0 = time.time()
    patches = sorted(glob.glob(os.path.join(VERIF, 'mutants', prop, '*.patch')))
    for sd in sorted(glob.glob(os.path.join(VERIF, 'seeded', '*'))):
        meta = os.path.join(sd, 'meta.json')
        if os.path.exists(meta):
            try:
                m = json.load(open(meta))
            except Exception:
                continue
            if prop in m.get('detected_by', []) and os.path.exists(os.path.join(sd, 'patch.diff')):
                patches.append(os.path.join(sd, 'patch.diff'))
    results = []
    with ThreadPoolExecutor(max_workers=8) as ex:
        for r in ex.map(lambda p: _one_patch(prop, repo, p), patches):
            results.append(r)
    missed = [r for r in results if r['status'] == 'MISSED']
    for r in missed:
        print('SELF-TEST WARNING: property=%s mutant %s is not reported by the check (rule blind?)' % (prop, r['patch']))
    out = {'mutants': results, 'detected': sum(1 for r in results if r['status'] == 'detected'), 'missed': len(missed),
           'skipped': sum(1 for r in results if r['status'] == 'skipped'), 'wall_s': round(time.time() - t0, 1)}
    # (b) the original unrepaired commit
    try:
        first = subprocess.check_output(['git', '-C', repo, 'rev-list', '--max-parents=0', 'HEAD'], text=True).split()[0]
        known = json.load(open(os.path.join(VERIF, 'known_findings.json')))
        had = any(('property=%s ' % prop) in f for f in known.get('fixed', []))
        if had:
            d = tempfile.mkdtemp(prefix='rivia-orig-')
            try:
                tar = subprocess.Popen(['git', '-C', repo, 'archive', first], stdout=subprocess.PIPE)
                subprocess.check_call(['tar', '-x', '-C', d], stdin=tar.stdout)
                tar.wait()
                rc, keys, tail = _run_check(prop, d)
                out['original_commit'] = {'commit': first[:10], 'reported': rc == 1, 'keys': keys[:12]}
                if rc != 1:
                    print('SELF-TEST WARNING: property=%s the unrepaired original commit %s is not reported' % (prop, first[:10]))
            finally:
                shutil.rmtree(d, ignore_errors=True)
    except Exception as e:   # no git history available: nothing to compare against
        out['original_commit'] = {'skipped': str(e)[:200]}
    return out


def lint_cross_reference(repo):
    """rustc `unsafe_code` lint + selected clippy lints on a scratch copy (cross-reference only, never a verdict)"""
    d = _scratch(repo)
    tgt = tempfile.mkdtemp(prefix='rivia-lint-target-')
    res = {}
    try:
        env = dict(os.environ, CARGO_NET_OFFLINE='true', CARGO_TARGET_DIR=tgt, RUSTFLAGS='-Funsafe_code -Awarnings')
        p = subprocess.run(['cargo', 'check', '--offline', '--lib'], cwd=d, env=env, stdout=subprocess.PIPE, stderr=subprocess.STDOUT, text=True)
        res['rustc_forbid_unsafe_code'] = 'builds (no unsafe in the crate)' if p.returncode == 0 else 'FAILS: ' + p.stdout[-400:]
        lints = ['clippy::string_slice', 'clippy::indexing_slicing', 'clippy::unwrap_used', 'clippy::expect_used', 'clippy::arithmetic_side_effects', 'clippy::let_underscore_lock']
        env2 = dict(os.environ, CARGO_NET_OFFLINE='true', CARGO_TARGET_DIR=tgt)
        args = ['cargo', '+nightly', 'clippy', '--offline', '--lib', '--message-format=json', '--', '-Awarnings'] + ['-W' + l for l in lints]
        p = subprocess.run(args, cwd=d, env=env2, stdout=subprocess.PIPE, stderr=subprocess.DEVNULL, text=True)
        hits = []
        for line in p.stdout.splitlines():
            try:
                m = json.loads(line)
            except Exception:
                continue
            if m.get('reason') != 'compiler-message':
                continue
            msg = m['message']
            code = (msg.get('code') or {}).get('code')
            if code in lints and msg.get('spans'):
                sp = msg['spans'][0]
                hits.append({'lint': code, 'file': sp['file_name'], 'line': sp['line_start']})
        res['clippy_hits'] = hits
    finally:
        shutil.rmtree(d, ignore_errors=True)
        shutil.rmtree(tgt, ignore_errors=True)
    return res
