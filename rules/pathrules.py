"""ROOT-STRIP and other path-helper rules (C15)."""
import re
from mir import Body, callee_of, op_local, op_place
import panics
from panics import describe_operand, describe_local, describe_def, known_facts


def _is_separator(F, B, l, depth=0):
    """local holds the path separator (as char or String): derives from MAIN_SEPARATOR / '/' only"""
    if depth > 6:
        return False
    ds = B.whole_defs(l)
    if len(ds) != 1:
        return False
    d = ds[0]
    if d[0] == 'call':
        t = d[3]
        c = t.get('callee') or ''
        if c.endswith('::to_string') or c.endswith('::from') or c.endswith('::to_owned') or c.endswith('::as_str') or c.endswith('::deref'):
            a = t['args'][0]
            return _op_is_separator(F, B, a, depth + 1)
        return False
    rv = d[4]
    if rv['k'] == 'use':
        return _op_is_separator(F, B, rv['op'], depth + 1)
    if rv['k'] in ('ref', 'copyforderef'):
        if rv['place']['p'] and not all(e['k'] == 'deref' for e in rv['place']['p']):
            return False
        return _is_separator(F, B, rv['place']['l'], depth + 1)
    return False


def _op_is_separator(F, B, o, depth):
    if o['k'] == 'const':
        if o.get('char') == '/' or o.get('str') == '/':
            return True
        if o.get('uneval') == 'std::path::MAIN_SEPARATOR' or o.get('uneval') == 'std::path::MAIN_SEPARATOR_STR':
            return True
        if 'promoted' in o:
            root = B.b.get('root', B.name) if B.b.get('kind') == 'Promoted' else B.name
            pb = F.bodies.get('%s::promoted[%d]' % (root, o['promoted']))
            if pb is None:
                return False
            PB = Body(pb)
            vals = []
            for i, j, s in PB.assigns():
                if s['rv']['k'] == 'use' and s['rv']['op']['k'] == 'const':
                    vals.append(s['rv']['op'])
            return bool(vals) and all(v.get('char') == '/' or v.get('str') == '/' or v.get('uneval') in ('std::path::MAIN_SEPARATOR', 'std::path::MAIN_SEPARATOR_STR') for v in vals)
        return False
    p = op_place(o)
    if p is None:
        return False
    if p['p'] and not all(e['k'] == 'deref' for e in p['p']):
        return False
    return _is_separator(F, B, p['l'], depth)


def root_strip(rep, F, cg):
    rep.rule('ROOT-STRIP', 'the operand path::mash hands to Path::join comes from a sanitizer that removes EVERY leading separator: the join is '
             'dominated by the failed edge of `has_prefix(base, separator)` with no re-assignment of base in between (strip loop), or base is the '
             'result of str::trim_start_matches(separator). Stripping a single separator leaves "//b" absolute and join() escapes the directory')
    name = 'sys::fs::path::mash'
    if name not in F.bodies:
        rep.add('ROOT-STRIP', 'rootstrip:mash', 'path::mash exists', False, detail='anchor sys::fs::path::mash not found')
        return
    B = cg.body(name)
    joins = [(i, t) for i, t in B.calls() if (t.get('callee') or '') in ('<std::path::Path>::join', '<std::path::PathBuf>::push')]
    if not joins:
        # a mash that never joins an absolute-capable operand (e.g. pushes components) has nothing to strip
        comps = [t for i, t in B.calls() if (t.get('callee') or '').endswith('::components')]
        rep.add('ROOT-STRIP', 'rootstrip:mash', 'mash joins through Path::join or builds from components', bool(comps), '%s:%d' % (B.file, B.line),
                '' if comps else 'mash neither calls Path::join nor iterates components: the rule cannot locate the join (anchor changed)')
        return
    for (i, t) in joins:
        arg = t['args'][1]
        l = op_local(arg)
        # follow plain moves back to the named local
        src = l
        for _ in range(6):
            if src is None or B.local_name(src):
                break
            ds = B.whole_defs(src)
            if len(ds) == 1 and ds[0][0] == 'assign' and ds[0][4]['k'] == 'use':
                src = op_local(ds[0][4]['op'])
            else:
                break
        ok = False
        why = ''
        if src is not None:
            x = describe_local(B, src)
            for d in B.dom[i]:
                tt = B.term(d)
                if tt['k'] != 'switch' or tt.get('discr_ty') != 'bool':
                    continue
                dl = op_local(tt['discr'])
                if dl is None:
                    continue
                cds = B.whole_defs(dl)
                if len(cds) != 1 or cds[0][0] != 'call':
                    continue
                ct = cds[0][3]
                c = callee_of(ct) or ''
                if not (c.endswith('::has_prefix') or c.endswith('::starts_with')):
                    continue
                if describe_operand(B, ct['args'][0]) != x:
                    continue
                sep_l = op_local(ct['args'][1])
                if ct['args'][1]['k'] == 'const':
                    sep_ok = _op_is_separator(F, B, ct['args'][1], 0)
                else:
                    sep_ok = sep_l is not None and _is_separator(F, B, sep_l)
                if not sep_ok:
                    continue
                false_t = [tb for v, tb in tt['targets'] if v == '0']
                if len(false_t) != 1 or not B.dominates(false_t[0], i) or B.preds[false_t[0]] != [d]:
                    continue
                # no assignment to the base local between the failed test and the join
                between = B.reachable_from(false_t[0]) & panics._can_reach(B, i)
                redefined = any(dd[1] in between and dd[1] != d for dd in B.defs.get(src, []) if not (dd[0] == 'assign' and dd[1] == i))
                if not redefined:
                    ok = True
                    why = 'join is dominated by the failed test %s with no re-assignment of %s in between' % (describe_local(B, dl), x)
            if not ok:
                ds = B.whole_defs(src)
                if len(ds) == 1 and ds[0][0] == 'call' and (ds[0][3].get('callee') or '').endswith('::trim_start_matches'):
                    a1 = ds[0][3]['args'][1]
                    if _op_is_separator(F, B, a1, 0):
                        ok = True
                        why = 'operand is the result of trim_start_matches(separator)'
        o = rep.add('ROOT-STRIP', 'rootstrip:mash', 'the path joined onto the directory in mash has no leading separator left', ok, B.loc(i),
                    '' if ok else 'mash passes `%s` to Path::join without a sanitizer that removes every leading separator: mash("/a", "//b") escapes "/a"' % describe_operand(B, arg))
        if why:
            o.witness = [why]


def join_own(rep, F, cg, rule='JOIN-OWN'):
    """who-may-call: Path::join replaces the base when its operand is absolute, so only the root-stripping helper may call it"""
    rep.rule(rule, 'std::path::Path::join (which discards the base when the joined operand is absolute) is called only from path::mash, the helper that strips '
             'every leading separator first; every other place that combines paths goes through mash (PathBuf::push call sites are listed in the evidence)')
    n = 0
    pushes = []
    for name in cg.names():
        B = cg.body(name)
        for i, t in B.calls():
            c = t.get('callee') or ''
            if c in ('<std::path::Path>::join', '<std::path::PathBuf>::join'):
                n += 1
                ok = name == 'sys::fs::path::mash'
                rep.add(rule, 'joinown:%s' % name, 'Path::join is called from mash only', ok, B.loc(i),
                        '' if ok else '%s calls Path::join directly at %s: an operand with a leading separator (e.g. the tail of "~//x") replaces the base instead of being appended' % (name, B.loc(i)))
            elif c == '<std::path::PathBuf>::push':
                pushes.append('%s at %s (%s)' % (name, B.loc(i), t['arg_tys'][1] if len(t['arg_tys']) > 1 else '?'))
    rep.floor(rule, 'Path::join call sites', n, 1)
    rep.analysed['pathbuf_push_sites'] = pushes
