"""Shared MIR analyses: CFG, dominators, definitions, must-alias normalisation, provenance.

All analyses work on the JSON facts written by extractor/ — nothing here runs rivia code.
"""
import re
from collections import defaultdict, deque


def place_key(p):
    """hashable, printable form of a place"""
    s = '_%d' % p['l']
    for e in p['p']:
        k = e['k']
        if k == 'deref':
            s = '(*%s)' % s
        elif k == 'field':
            s = '%s.%s' % (s, e.get('name', e['i']))
        elif k == 'downcast':
            s = '(%s as %s)' % (s, e['variant'])
        elif k == 'index':
            s = '%s[_%d]' % (s, e['local'])
        else:
            s = '%s{%s}' % (s, k)
    return s


def op_place(o):
    return o['place'] if o['k'] in ('copy', 'move') else None


def op_local(o):
    """the local if the operand is a bare local"""
    p = op_place(o)
    if p is not None and not p['p']:
        return p['l']
    return None


class Body:
    def __init__(self, b):
        self.b = b
        self.name = b['name']
        self.blocks = b['blocks']
        self.locals = b['locals']
        self.nargs = b['arg_count']
        self.file = b['span']['file']
        self.line = b['span']['line']
        self._succ = {}
        self._pred = None
        self._normal = None
        self._dom = None
        self._pdom = None
        self._defs = None
        self.infeasible = set()   # (bb, target) edges pruned as infeasible (NeverErr / constant switch)
        # closure environment field index -> captured variable path (e.g. 1 -> 'm.follow')
        self.upvar_names = {}
        for u in b.get('upvar_debug', []):
            m = re.match(r'^([A-Za-z_][A-Za-z_0-9]*)=\(\(?\*?_1\)?\.(\d+): ', u)
            if m:
                self.upvar_names[int(m.group(2))] = m.group(1).replace('__', '.')

    def reset(self):
        self._succ = {}
        self._pred = None
        self._normal = None
        self._dom = None
        self._pdom = None
        self._defs = None
        if hasattr(self, '_reach_ret'):
            del self._reach_ret

    # ------------------------------------------------------------------ CFG
    def term(self, i):
        return self.blocks[i]['term']

    def line_of(self, i):
        sp = self.blocks[i]['span']
        return sp.get('call_line', sp['line']) if sp.get('call_file', sp['file']) == self.file else sp['line']

    def loc(self, i):
        sp = self.blocks[i]['span']
        if 'call_file' in sp:
            return '%s:%d' % (sp['call_file'], sp['call_line'])
        return '%s:%d' % (sp['file'], sp['line'])

    def succs(self, i, unwind=False):
        key = (i, unwind)
        if key in self._succ:
            return self._succ[key]
        t = self.term(i)
        k = t['k']
        out = []
        if k == 'goto':
            out = [t['target']]
        elif k == 'switch':
            out = [bb for _, bb in t['targets']] + [t['otherwise']]
        elif k in ('call', 'drop', 'assert'):
            if t.get('target') is not None:
                out = [t['target']]
            if unwind and t.get('unwind') is not None:
                out.append(t['unwind'])
        # dedupe preserving order
        seen = []
        for x in out:
            if x not in seen and (i, x) not in self.infeasible:
                seen.append(x)
        self._succ[key] = seen
        return seen

    @property
    def normal(self):
        """blocks reachable from entry over non-unwind edges"""
        if self._normal is None:
            seen = {0}
            dq = deque([0])
            while dq:
                x = dq.popleft()
                for s in self.succs(x):
                    if s not in seen:
                        seen.add(s)
                        dq.append(s)
            self._normal = seen
        return self._normal

    @property
    def preds(self):
        if self._pred is None:
            p = defaultdict(list)
            for i in self.normal:
                for s in self.succs(i):
                    p[s].append(i)
            self._pred = p
        return self._pred

    @property
    def dom(self):
        """dominator sets over the normal sub-graph"""
        if self._dom is None:
            nodes = sorted(self.normal)
            dom = {n: set(nodes) for n in nodes}
            dom[0] = {0}
            changed = True
            while changed:
                changed = False
                for n in nodes:
                    if n == 0:
                        continue
                    ps = [p for p in self.preds[n]]
                    if not ps:
                        continue
                    new = set.intersection(*(dom[p] for p in ps)) | {n}
                    if new != dom[n]:
                        dom[n] = new
                        changed = True
            self._dom = dom
        return self._dom

    def dominates(self, a, b):
        return a in self.dom.get(b, ())

    @property
    def exits(self):
        return [i for i in self.normal if self.term(i)['k'] == 'return']

    @property
    def pdom(self):
        """post-dominator sets over the normal sub-graph w.r.t. return blocks"""
        if self._pdom is None:
            nodes = sorted(self.normal)
            exits = set(self.exits)
            pd = {n: set(nodes) for n in nodes}
            for e in exits:
                pd[e] = {e}
            changed = True
            while changed:
                changed = False
                for n in nodes:
                    if n in exits:
                        continue
                    ss = [s for s in self.succs(n)]
                    ss = [s for s in ss if not self.is_dead_end(s)]
                    if not ss:
                        continue
                    new = set.intersection(*(pd[s] for s in ss)) | {n}
                    if new != pd[n]:
                        pd[n] = new
                        changed = True
            self._pdom = pd
        return self._pdom

    def is_dead_end(self, i):
        """block that cannot reach a return (unreachable / diverging call such as panic)"""
        if not hasattr(self, '_reach_ret'):
            rr = set(self.exits)
            changed = True
            while changed:
                changed = False
                for n in self.normal:
                    if n not in rr and any(s in rr for s in self.succs(n)):
                        rr.add(n)
                        changed = True
            self._reach_ret = rr
        return i not in self._reach_ret

    def reachable_from(self, start, avoid=()):
        """blocks reachable from `start` (inclusive) over normal edges without entering `avoid`"""
        avoid = set(avoid)
        seen = set()
        dq = deque([start] if start not in avoid else [])
        while dq:
            x = dq.popleft()
            if x in seen:
                continue
            seen.add(x)
            for s in self.succs(x):
                if s not in seen and s not in avoid:
                    dq.append(s)
        return seen

    def path(self, a, b, avoid=()):
        """a shortest block path a..b over normal edges avoiding blocks in `avoid`, or None"""
        avoid = set(avoid)
        prev = {a: None}
        dq = deque([a])
        while dq:
            x = dq.popleft()
            if x == b and (x != a or prev[a] is not None or a == b):
                out = []
                while x is not None:
                    out.append(x)
                    x = prev[x]
                return list(reversed(out))
            for s in self.succs(x):
                if s not in prev and s not in avoid:
                    prev[s] = x
                    dq.append(s)
        return None

    # ------------------------------------------------------------ definitions
    @property
    def defs(self):
        """local -> list of definitions touching that local (whole or projected) in normal blocks:
           ('assign', bb, idx, place, rv) | ('call', bb, place, term)"""
        if self._defs is None:
            d = defaultdict(list)
            for i in sorted(self.normal):
                blk = self.blocks[i]
                for j, s in enumerate(blk['stmts']):
                    if s['k'] == 'assign':
                        d[s['place']['l']].append(('assign', i, j, s['place'], s['rv']))
                t = blk['term']
                if t['k'] == 'call':
                    d[t['dest']['l']].append(('call', i, t['dest'], t))
            self._defs = d
        return self._defs

    def calls(self, cleanup=False):
        rng = range(len(self.blocks)) if cleanup else sorted(self.normal)
        for i in rng:
            t = self.term(i)
            if t['k'] == 'call':
                yield i, t

    def assigns(self):
        for i in sorted(self.normal):
            for j, s in enumerate(self.blocks[i]['stmts']):
                if s['k'] == 'assign':
                    yield i, j, s

    def local_ty(self, l):
        return self.locals[l]['ty']

    def local_name(self, l):
        return self.locals[l].get('name')

    # ------------------------------------------------------- must-alias chain
    def whole_defs(self, l):
        """definitions that assign the *whole* local"""
        out = []
        for d in self.defs.get(l, []):
            place = d[3] if d[0] == 'assign' else d[2]
            if not place['p']:
                out.append(d)
        return out

    def reaching_def(self, l, use_bb):
        """for a local with several whole definitions in (mostly) straight-line code: the closest definition that dominates the
        use block with no other definition of the local between it and the use; None when ambiguous"""
        ds = self.whole_defs(l)
        if len(ds) == 1:
            return ds[0]
        cands = [d for d in ds if self.dominates(d[1], use_bb) and not (d[0] == 'call' and d[1] == use_bb)]
        if not cands:
            return None
        best = max(cands, key=lambda d: (len(self.dom[d[1]]), d[2] if d[0] == 'assign' else 10 ** 6))
        reach = self.reachable_from(best[1])
        for d in ds:
            if d is best or d[1] in (use_bb, best[1]):
                continue
            if d[1] in reach and use_bb in self.reachable_from(d[1]):
                return None
        return best

    def norm_operand(self, o, depth=0):
        """symbolic normal form of an operand following single-definition temporaries.
        Returns a string such as 'arg2', '&(*arg1 as Memfs).0', 'const:5', 'call@bb7' or 'local_9'."""
        if o['k'] == 'const':
            if 'str' in o:
                return 'const:%r' % o['str']
            if 'bool' in o:
                return 'const:%s' % str(o['bool']).lower()
            if 'sint' in o:
                return 'const:%s' % o['sint']
            if 'int' in o:
                return 'const:%s' % o['int']
            if 'fn' in o:
                return 'fn:%s' % o['fn']
            if 'promoted' in o:
                return 'promoted:%d' % o['promoted']
            if 'uneval' in o:
                return 'constitem:%s' % o['uneval']
            return 'const<%s>' % o['ty']
        if o['k'] in ('copy', 'move'):
            return self.norm_place(o['place'], depth)
        return o['k']

    def norm_local(self, l, depth=0):
        if 1 <= l <= self.nargs:
            # a parameter that is never re-assigned as a whole
            if not self.whole_defs(l):
                return 'arg%d' % l
        if depth > 40:
            return 'local_%d' % l
        ds = self.whole_defs(l)
        if len(ds) == 1:
            d = ds[0]
            if d[0] == 'call':
                return 'call@bb%d' % d[1]
            rv = d[4]
            k = rv['k']
            if k == 'use':
                return self.norm_operand(rv['op'], depth + 1)
            if k == 'copyforderef':
                return self.norm_place(rv['place'], depth + 1)
            if k == 'ref':
                inner = self.norm_place(rv['place'], depth + 1)
                return '&' + inner
            if k == 'cast':
                ck = rv['cast']
                if 'Unsize' in ck or 'Subtype' in ck:
                    return self.norm_operand(rv['op'], depth + 1)
                return 'cast@bb%d.%d' % (d[1], d[2])
            return '%s@bb%d.%d' % (k, d[1], d[2])
        if not ds:
            return 'local_%d' % l
        return 'multi_%d' % l

    def norm_place(self, p, depth=0):
        s = self.norm_local(p['l'], depth)
        for e in p['p']:
            k = e['k']
            if k == 'deref':
                if s.startswith('&') and not s.startswith('&&'):
                    s = s[1:]
                else:
                    s = '(*%s)' % s
            elif k == 'field':
                s = '%s.%s' % (s, e.get('name', e['i']))
            elif k == 'downcast':
                s = '(%s as %s)' % (s, e['variant'])
            elif k == 'index':
                s = '%s[%s]' % (s, self.norm_local(e['local'], depth + 1))
            else:
                s = '%s{%s}' % (s, k)
        return s

    # ------------------------------------------------------------- provenance
    def origins(self, l, transparent=None, _seen=None):
        """flow-insensitive may-provenance of local l: set of root descriptors
           ('arg', n) | ('call', bb) | ('const', repr) | ('agg', bb, idx) | ('op', bb, idx)
        `transparent(term)` -> list of arg indexes through which provenance flows for a call."""
        if _seen is None:
            _seen = set()
        if l in _seen:
            return set()
        _seen.add(l)
        out = set()
        if 1 <= l <= self.nargs:
            out.add(('arg', l))
        for d in self.defs.get(l, []):
            if d[0] == 'call':
                t = d[3]
                flow = transparent(t) if transparent else None
                if flow:
                    for ai in flow:
                        if ai < len(t['args']):
                            out |= self.op_origins(t['args'][ai], transparent, _seen)
                else:
                    out.add(('call', d[1]))
            else:
                rv = d[4]
                k = rv['k']
                if k == 'use':
                    out |= self.op_origins(rv['op'], transparent, _seen)
                elif k in ('ref', 'copyforderef', 'rawptr', 'discr'):
                    out |= self.origins(rv['place']['l'], transparent, _seen)
                elif k == 'cast':
                    out |= self.op_origins(rv['op'], transparent, _seen)
                elif k == 'aggregate':
                    out.add(('agg', d[1], d[2]))
                    for o in rv['ops']:
                        out |= self.op_origins(o, transparent, _seen)
                elif k in ('binop',):
                    out.add(('op', d[1], d[2]))
                    out |= self.op_origins(rv['l'], transparent, _seen)
                    out |= self.op_origins(rv['r'], transparent, _seen)
                elif k == 'unop':
                    out.add(('op', d[1], d[2]))
                    out |= self.op_origins(rv['a'], transparent, _seen)
                else:
                    out.add(('op', d[1], d[2]))
        return out

    def op_origins(self, o, transparent=None, _seen=None):
        if o['k'] == 'const':
            return {('const', self.norm_operand(o))}
        p = op_place(o)
        if p is None:
            return set()
        return self.origins(p['l'], transparent, _seen)


def callee_of(t):
    """best identification of the callee of a call terminator"""
    return t.get('resolved') or t.get('callee')


def callee_matches(t, *names):
    c = t.get('resolved')
    d = t.get('callee')
    return (c in names) or (d in names)
