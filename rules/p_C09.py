"""C09 — copy duplicates and move_p relocates a subtree.
Decided: UNIT (byte-correct relative destination), DST-REL (destination computed from the source path relative to the source root, same on both
backends), FAIL-ATOMIC (a failed move_p changes nothing), SNAPSHOT (iteration over a snapshot taken before mutation), SETTER (Copier), MODE-SEL sibling.
Not decided: equality of the resulting tree with the specified one."""
import re
import engine, panics, atomic, setters, locks, p_C04
from mir import callee_of, op_local
from panics import skey_call, sdesc_operand

MEMFS = 'sys::fs::memfs::vfs::Memfs'
STDFS = 'sys::fs::stdfs::Stdfs'
TR = 'sys::fs::vfs::VirtualFileSystem'
EXPLANATION = (
    "Decided structural clauses: 'destination path computed from the source path relative to the source root' — every destination in Memfs::_copy, "
    "Stdfs::_copy and Memfs::move_p is dst_root.mash(src.path().trim_prefix(src_root[.dir()])) with the copy-into choice made by is_dir(dst_root) "
    "(DST-REL), and trim_prefix slices at byte offsets (UNIT) — a character-count offset mis-places or panics on multi-byte names; 'a failed move_p "
    "changes nothing' — no mutate-then-Err path in move_p (FAIL-ATOMIC); 'iteration over a snapshot taken before mutation' — _copy iterates "
    "_entries(..) whose iterator closure holds only cloned entries (SNAPSHOT + chain _entries -> _entry_iter -> _clone_entries); the Copier builder "
    "assigns exactly its documented fields (SETTER) and both _copy implementations pass the same mode options to the same roles (MODE-SEL). NOT decided: "
    "that the resulting tree equals the specified one (kinds, contents, link targets, modes of every entry) for all trees.")


def run(rep, F, ctx):
    A = locks.LockAnalysis(F)
    cg = A.cg
    panics.unit(rep, F, cg)
    rep.rule('DST-REL', 'every destination path in Memfs::_copy, Stdfs::_copy and Memfs::move_p is mash(dst_root, trim_prefix(<source path>, <source root or its '
             'dir()>)); the variant with dir() is chosen on the copy-into (is_dir(dst_root)) edge')
    shapes = {}
    for fn in ('<%s>::_copy' % MEMFS, '<%s>::_copy' % STDFS, '<%s as %s>::move_p' % (MEMFS, TR)):
        if fn not in F.bodies:
            rep.add('DST-REL', 'dstrel:%s' % fn, '%s exists' % fn, False, detail='anchor missing')
            continue
        B = cg.body(fn)
        sites = []
        for i, t in B.calls():
            c = callee_of(t) or ''
            if c.endswith('PathExt>::mash') or c == 'sys::fs::path::mash':
                a1 = sdesc_operand(B, t['args'][1])
                if 'trim_prefix(' in a1:
                    sites.append((i, a1))
        short = fn.split('::')[-2].strip('<>').split(' ')[0] + '::' + fn.split('::')[-1]
        ok = len(sites) == 2
        with_dir = [a for i, a in sites if re.search(r'dir\(', a)]
        without = [a for i, a in sites if not re.search(r'dir\(', a)]
        ok = ok and len(with_dir) == 1 and len(without) == 1
        # the dir() variant sits on the copy_into true edge
        if ok:
            bi = [i for i, a in sites if re.search(r'dir\(', a)][0]
            facts = panics.known_facts(B, bi)
            ok = any(tr for d, tr in facts if 'is_dir' in d or 'copy_into' in d)
        rep.add('DST-REL', 'dstrel:%s' % short, '%s computes each destination as dst_root.mash(path.trim_prefix(src_root[.dir()]))' % short, ok, '%s:%d' % (B.file, B.line),
                '' if ok else '%s builds its destinations as %s' % (short, [a for i, a in sites]), [a for i, a in sites])
        shapes[short] = sorted(re.sub(r'arg\d', 'arg', re.sub(r'(write_guard\(arg1\)|arg1,)', '', a)) for i, a in sites)
    rep.floor('DST-REL', 'destination computations', sum(len(v) for v in shapes.values()), 6)

    atomic.fail_atomic(rep, F, cg, only={'<%s as %s>::move_p' % (MEMFS, TR)})
    p_C04.snapshot(rep, F, A)
    rep.rule('PAIR', '_copy: every copied non-link file entry gets its data stored under the destination key (after _add, insert_file on every path, unless the source is a link)')
    M = atomic.Mutation(F, cg)
    P = atomic.PairCheck(F, cg, M)
    P.after(rep, 'PAIR', 'pair:_copy:_add->insert_file', '<%s>::_copy' % MEMFS, lambda B, i, t: (callee_of(t) or '').endswith('>::_add'),
            lambda B, i, t: (callee_of(t) or '').endswith('>::insert_file'), [('true', r'^is_symlink\(')],
            '_copy: a copied non-link file gets its data stored under the new key')
    t = engine.load_table('setters.json')
    setters.setter(rep, F, cg, {k: v for k, v in t.items() if k.startswith('<sys::fs::copy::Copier>')})

    rep.rule('MODE-SEL', 'in both _copy implementations the directory-creation mode derives from (cp.mode, cp.cdirs, cp.cfiles) and the source mode, the file '
             'mode likewise, and the reads of cp.cdirs / cp.cfiles / cp.mode / cp.follow are the same set on both backends')
    reads = {}
    for be, fn in (('memfs', '<%s>::_copy' % MEMFS), ('stdfs', '<%s>::_copy' % STDFS)):
        if fn not in F.bodies:
            continue
        B = cg.body(fn)
        rd = []
        for i in sorted(B.normal):
            t = B.term(i)
            if t['k'] == 'switch':
                d = panics.describe_operand(B, t['discr']) if t['discr']['k'] in ('copy', 'move') else ''
                m = re.search(r'\.(cdirs|cfiles|follow)$', d)
                if m:
                    rd.append(m.group(1))
                m2 = re.search(r'discr\((.*)\.mode\)', d)
                if m2:
                    rd.append('mode')
        reads[be] = sorted(rd)
    ok = len(reads) == 2 and reads['memfs'] == reads['stdfs'] and reads['memfs'].count('mode') == 2 and reads['memfs'].count('cdirs') == 2 and reads['memfs'].count('cfiles') == 2
    rep.add('MODE-SEL', 'modesel:option-reads', 'both _copy implementations branch on cp.mode twice, cp.cdirs twice, cp.cfiles twice and on cp.follow equally often', ok, '',
            '' if ok else 'option reads differ or are incomplete: %s' % reads, [str(reads)])
    setters.mode_selection(rep, F, cg)
    setters.copy_parent_mode(rep, F, cg)
    import siteguard as _sg
    _t = engine.load_table('site_guards.json')
    _sg.site_guard(rep, F, cg, _t, _t['_groups']['C09'])
    return engine.finish(
        rep, 'other', EXPLANATION,
        assumptions=['mash / trim_prefix behave as decided under C15'],
        trusted_base=['rustc nightly MIR', 'extractor/', 'rules/panics.py, rules/atomic.py, rules/setters.py'],
        checker_cmd='./check C09', seed=ctx['seed'])
