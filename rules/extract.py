"""Runs the rustc_private fact extractor on /repo's *current working tree* (content-hash cached).

The compiler is the only thing that runs; rivia itself is never executed."""
import fcntl, hashlib, os, shutil, subprocess, sys, tempfile, time

VERIF = os.path.dirname(os.path.dirname(os.path.abspath(__file__)))
REPO = os.environ.get('VERIF_REPO', '/repo')
CACHE = os.path.join(VERIF, '.cache')
DRIVER = os.path.join(VERIF, 'extractor', 'target', 'release', 'rivia-facts')
HARNESS = os.path.join(VERIF, 'harness', 'macros')


def tree_hash(repo=REPO, extra_dirs=()):
    h = hashlib.sha256()
    files = []
    for top in ('Cargo.toml', 'Cargo.lock'):
        p = os.path.join(repo, top)
        if os.path.exists(p):
            files.append(p)
    roots = [os.path.join(repo, 'src')] + list(extra_dirs)
    for r in roots:
        for dp, dn, fn in os.walk(r):
            dn[:] = sorted(d for d in dn if d not in ('target', '.git'))
            for f in sorted(fn):
                files.append(os.path.join(dp, f))
    for p in files:
        h.update(p.encode())
        with open(p, 'rb') as f:
            h.update(hashlib.sha256(f.read()).digest())
    # the extractor itself is part of the key
    with open(os.path.join(VERIF, 'extractor', 'src', 'main.rs'), 'rb') as f:
        h.update(f.read())
    return h.hexdigest()[:24]


def sysroot():
    return subprocess.check_output(['rustc', '+nightly', '--print', 'sysroot'], text=True).strip()


def ensure_driver():
    if os.path.exists(DRIVER):
        src = os.path.join(VERIF, 'extractor', 'src', 'main.rs')
        if os.path.getmtime(DRIVER) >= os.path.getmtime(src):
            return
    env = dict(os.environ, CARGO_NET_OFFLINE='true')
    subprocess.check_call(['cargo', 'build', '--release', '--offline'], cwd=os.path.join(VERIF, 'extractor'), env=env,
                          stdout=subprocess.DEVNULL, stderr=subprocess.DEVNULL)


def _run_driver(crate_dir, crates, out_dir, target_dir, rustflags_extra=''):
    env = dict(os.environ)
    env['LD_LIBRARY_PATH'] = sysroot() + '/lib' + (':' + env['LD_LIBRARY_PATH'] if env.get('LD_LIBRARY_PATH') else '')
    env['RUSTFLAGS'] = ('-Zmir-opt-level=0 -Awarnings ' + rustflags_extra).strip()
    env['RUSTC_WORKSPACE_WRAPPER'] = DRIVER
    env['VERIF_OUT'] = out_dir
    env['VERIF_CRATES'] = crates
    env['CARGO_TARGET_DIR'] = target_dir
    env['CARGO_NET_OFFLINE'] = 'true'
    env.pop('RUSTC_WRAPPER', None)
    p = subprocess.run(['cargo', '+nightly', 'check', '--offline', '--lib'], cwd=crate_dir, env=env,
                       stdout=subprocess.PIPE, stderr=subprocess.STDOUT, text=True)
    return p


def facts_for_repo(repo=REPO, want_harness=False, quiet=False):
    """returns dict crate-name -> fact file path for the current tree (extracting if needed)"""
    os.makedirs(CACHE, exist_ok=True)
    ensure_driver()
    extra = [os.path.join(HARNESS, 'src')] if want_harness else []
    key = tree_hash(repo, extra) + ('-h' if want_harness else '')
    lock = open(os.path.join(CACHE, 'lock-' + key), 'w')     # one lock per analysed tree: different trees extract in parallel
    fcntl.flock(lock, fcntl.LOCK_EX)
    try:
        out_dir = os.path.join(CACHE, 'facts', key)
        need = ['rivia'] + (['rivia_macro_harness'] if want_harness else [])
        if all(os.path.exists(os.path.join(out_dir, c + '.json')) for c in need):
            return {c: os.path.join(out_dir, c + '.json') for c in need}, key, False
        t0 = time.time()
        # prune old fact dirs (keep the cache small)
        fdir = os.path.join(CACHE, 'facts')
        if os.path.isdir(fdir):
            try:
                now = time.time()
                olds = sorted((os.path.join(fdir, d) for d in os.listdir(fdir) if not d.endswith('.tmp')), key=os.path.getmtime)
                for d in olds[:-10]:
                    if now - os.path.getmtime(d) > 900:      # never touch anything a concurrent run may still be using
                        shutil.rmtree(d, ignore_errors=True)
            except OSError:
                pass
        tmp_out = out_dir + '.tmp'
        shutil.rmtree(tmp_out, ignore_errors=True)
        os.makedirs(tmp_out)
        target = tempfile.mkdtemp(prefix='rivia-facts-target-')
        try:
            if want_harness:
                p = _run_driver(repo, 'rivia', tmp_out, target)
                if p.returncode != 0 or not os.path.exists(os.path.join(tmp_out, 'rivia.json')):
                    sys.stdout.write(p.stdout)
                    raise SystemExit('EXTRACTION FAILED: /repo does not type-check under the extractor')
                # the harness path-depends on the analysed repo: build a scratch copy of the harness crate pointing at it
                hdir = os.path.join(target, 'harness-crate')
                os.makedirs(os.path.join(hdir, 'src'))
                shutil.copy(os.path.join(HARNESS, 'src', 'lib.rs'), os.path.join(hdir, 'src', 'lib.rs'))
                with open(os.path.join(hdir, 'Cargo.toml'), 'w') as f:
                    f.write('[package]\nname = "rivia_macro_harness"\nversion = "0.0.0"\nedition = "2021"\n\n[lib]\npath = "src/lib.rs"\n\n'
                            '[dependencies]\nrivia = { path = "%s" }\n\n[workspace]\n' % os.path.abspath(repo))
                shutil.copy(os.path.join(repo, 'Cargo.lock'), os.path.join(hdir, 'Cargo.lock'))
                p = _run_driver(hdir, 'rivia_macro_harness', tmp_out, os.path.join(target, 'h'))
                if p.returncode != 0 or not os.path.exists(os.path.join(tmp_out, 'rivia_macro_harness.json')):
                    sys.stdout.write(p.stdout)
                    raise SystemExit('EXTRACTION FAILED: harness/macros does not type-check against the analysed tree')
            else:
                p = _run_driver(repo, 'rivia', tmp_out, target)
                if p.returncode != 0 or not os.path.exists(os.path.join(tmp_out, 'rivia.json')):
                    sys.stdout.write(p.stdout)
                    raise SystemExit('EXTRACTION FAILED: /repo does not type-check under the extractor')
        finally:
            shutil.rmtree(target, ignore_errors=True)
        shutil.rmtree(out_dir, ignore_errors=True)
        os.rename(tmp_out, out_dir)
        if not quiet:
            print('extracted facts for tree %s in %.1fs' % (key, time.time() - t0))
        return {c: os.path.join(out_dir, c + '.json') for c in need}, key, True
    finally:
        fcntl.flock(lock, fcntl.LOCK_UN)
        lock.close()
        try:
            os.remove(os.path.join(CACHE, 'lock-' + key))
        except OSError:
            pass
