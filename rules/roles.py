"""Role-based discovery of the few private helpers the rules anchor on, so that renaming them does not blind or alarm a rule.
A role is defined by what the function does, the name is only a cross-check."""
from mir import Body, callee_of

MEMFS = 'sys::fs::memfs::vfs::Memfs'
STDFS = 'sys::fs::stdfs::Stdfs'
STEPS = {'expand': ('sys::fs::path::expand', '<std::path::Path as sys::fs::path::PathExt>::expand'),
         'trim_protocol': ('sys::fs::path::trim_protocol', '<std::path::Path as sys::fs::path::PathExt>::trim_protocol'),
         'clean': ('sys::fs::path::clean', '<std::path::Path as sys::fs::path::PathExt>::clean')}
_cache = {}


def discover(F):
    """role -> body name.  memfs_abs / stdfs_abs: the inherent method of the backend that calls expand, trim_protocol and clean"""
    k = id(F)
    if k in _cache:
        return _cache[k]
    out = {}
    for n, b in F.bodies.items():
        if b.get('impl_trait') or b.get('impl_self') not in (MEMFS, STDFS) or b['kind'] != 'AssocFn':
            continue
        cs = {callee_of(t) for blk in b['blocks'] for t in [blk['term']] if t['k'] == 'call'}
        if all(any(c in cs for c in names) for names in STEPS.values()):
            role = 'memfs_abs' if b['impl_self'] == MEMFS else 'stdfs_abs'
            # prefer the canonical name when several qualify
            if role not in out or n.endswith('::_abs') or n.endswith('::abs'):
                out[role] = n
    _cache[k] = out
    return out


def aliases(F):
    """short callee name -> canonical short name used inside structural descriptions"""
    r = discover(F)
    out = {}
    if 'memfs_abs' in r:
        out[r['memfs_abs'].split('::')[-1]] = '_abs'
    return out
