"""Obligation bookkeeping, known-findings handling, evidence and replay files."""
import json, os, time

VERIF = os.path.dirname(os.path.dirname(os.path.abspath(__file__)))

DISCHARGED = 'discharged'
VIOLATED = 'violated'
EXCUSED = 'excused'


class Obligation:
    __slots__ = ('rule', 'key', 'desc', 'status', 'where', 'detail', 'witness', 'reason')

    def __init__(self, rule, key, desc, status, where='', detail='', witness=None, reason=''):
        self.rule = rule
        self.key = key
        self.desc = desc
        self.status = status
        self.where = where
        self.detail = detail
        self.witness = witness or []
        self.reason = reason

    def as_dict(self):
        d = {'rule': self.rule, 'key': self.key, 'obligation': self.desc, 'status': self.status, 'where': self.where}
        if self.detail:
            d['detail'] = self.detail
        if self.witness:
            d['witness'] = self.witness
        if self.reason:
            d['reason'] = self.reason
        return d


class Report:
    """collects the obligations of one property run"""

    def __init__(self, prop, tier):
        self.prop = prop
        self.tier = tier
        self.obls = []
        self.rules = {}       # rule name -> text
        self.notes = []       # free text cross references (never verdicts)
        self.analysed = {}    # what was analysed: name -> count / list
        self.t0 = time.time()
        self.floors = []      # (rule, name, measured, floor)

    def rule(self, name, text):
        self.rules[name] = text

    def add(self, rule, key, desc, ok, where='', detail='', witness=None):
        o = Obligation(rule, key, desc, DISCHARGED if ok else VIOLATED, where, detail, witness)
        self.obls.append(o)
        return o

    def excuse(self, rule, key, desc, reason, where='', detail=''):
        o = Obligation(rule, key, desc, EXCUSED, where, detail, reason=reason)
        self.obls.append(o)
        return o

    def floor(self, rule, name, measured, floor):
        """fail closed when fewer instances than confirmed by hand were found"""
        self.floors.append((rule, name, measured, floor))
        if measured < floor:
            self.add(rule, 'floor:%s' % name, 'at least %d instances of %s are analysed (vacuity guard)' % (floor, name),
                     False, detail='only %d instance(s) of %s found; the rule would pass vacuously — anchor missing or renamed' % (measured, name))

    def note(self, text):
        self.notes.append(text)


def load_known():
    p = os.path.join(VERIF, 'known_findings.json')
    if not os.path.exists(p):
        return {'findings': [], 'fixed': []}
    with open(p) as f:
        return json.load(f)


def load_table(name):
    p = os.path.join(VERIF, 'tables', name)
    with open(p) as f:
        return json.load(f)


def finish(rep, level, explanation, assumptions, trusted_base, checker_cmd, seed=0, extra_cov=None):
    """prints verdict lines, writes evidence and replay files, returns exit code"""
    known = load_known()
    known_keys = {}
    for k in known.get('findings', []):
        if k['property'] == rep.prop:
            known_keys[k['key']] = k
    ev_dir = os.environ.get('VERIF_EVIDENCE_DIR') or os.path.join(VERIF, 'evidence')
    replay_key = os.environ.get('VERIF_REPLAY_KEY')
    if replay_key:
        # --replay: re-decide one reported obligation on the current tree; evidence of the full run is left untouched
        import tempfile
        ev_dir = tempfile.mkdtemp(prefix='rivia-replay-')
    rp_dir = os.path.join(ev_dir, 'replay')
    os.makedirs(rp_dir, exist_ok=True)
    # remove stale replay files of this property
    for fn in os.listdir(rp_dir):
        if fn.startswith(rep.prop + '-'):
            os.remove(os.path.join(rp_dir, fn))

    violations = []
    known_hits = []
    for o in rep.obls:
        if o.status == VIOLATED:
            if o.key in known_keys:
                known_hits.append(o)
            else:
                violations.append(o)
    if replay_key:
        hit = [o for o in rep.obls if o.key == replay_key]
        violations = [o for o in violations if o.key == replay_key]
        print('replay: obligation %s %s' % (replay_key, 'is not produced by the rules on this tree (anchor gone?)' if not hit else
                                            ('is still violated' if violations else 'holds on this tree (%s)' % hit[0].status)))
        if not hit:
            print('VIOLATION property=%s replay=%s' % (rep.prop, os.environ.get('VERIF_REPLAY_FILE', '')))
            return 1
    n = 0
    for o in known_hits:
        print('KNOWN-FINDING: property=%s %s [%s %s] %s' % (rep.prop, known_keys[o.key]['what'], o.rule, o.key, o.where))
    for o in violations:
        n += 1
        rp = os.path.join(rp_dir, '%s-%d.json' % (rep.prop, n))
        if replay_key:
            rp = os.environ.get('VERIF_REPLAY_FILE', rp)
        with open(os.devnull if replay_key else rp, 'w') as f:
            json.dump({'property': rep.prop, 'rule': o.rule, 'rule_text': rep.rules.get(o.rule, ''), **o.as_dict()}, f, indent=1)
        print('%s: %s  [%s %s]' % (o.where, o.detail or o.desc, o.rule, o.key))
        print('VIOLATION property=%s replay=%s' % (rep.prop, rp))
    # stale known findings (listed but no longer produced) are reported as information only
    produced = {o.key for o in rep.obls if o.status == VIOLATED}
    for k in known_keys:
        if k not in produced:
            print('note: known finding %s/%s is no longer reported by the rules (repaired or anchor changed)' % (rep.prop, k))

    total = len(rep.obls)
    discharged = sum(1 for o in rep.obls if o.status == DISCHARGED)
    excused = sum(1 for o in rep.obls if o.status == EXCUSED)
    by_rule = {}
    for o in rep.obls:
        r = by_rule.setdefault(o.rule, {'obligations': 0, 'discharged': 0, 'excused': 0, 'known': 0, 'violated': 0})
        r['obligations'] += 1
        if o.status == DISCHARGED:
            r['discharged'] += 1
        elif o.status == EXCUSED:
            r['excused'] += 1
        elif o in known_hits:
            r['known'] += 1
        else:
            r['violated'] += 1
    samples = []
    seen_rules = {}
    for o in rep.obls:
        c = seen_rules.get(o.rule, 0)
        if c < 4 or o.status != DISCHARGED:
            samples.append(o.as_dict())
            seen_rules[o.rule] = c + 1
    cov = {
        'obligations': total,
        'discharged': discharged,
        'excused_by_table': excused,
        'known_findings': len(known_hits),
        'violated': len(violations),
        'checker_cmd': checker_cmd,
        'trusted_base': trusted_base,
        'explanation': explanation,
        'evaluations': total,
        'distinct_nontrivial': len({o.key for o in rep.obls}),
        'rule': 'one obligation per rule instance (match arm, call site, guard region, yield site, macro path); distinct = distinct instance keys',
        'rules': rep.rules,
        'per_rule': by_rule,
        'analysed': rep.analysed,
        'floors': [{'rule': r, 'instances_of': n_, 'measured': m, 'floor': fl} for r, n_, m, fl in rep.floors],
        'samples': samples[:60],
        'exhaustive': True,
    }
    if rep.notes:
        cov['cross_reference_notes'] = rep.notes
    if rep.tier == 'thorough' and os.environ.get('VERIF_NO_SELFTEST') != '1':
        import thorough
        repo = rep.analysed.get('repo', '/repo')
        cov['self_test'] = thorough.self_test(rep.prop, repo)
        if rep.prop in ('C12', 'C06', 'C04'):
            cov['lint_cross_reference'] = thorough.lint_cross_reference(repo)
    if extra_cov:
        cov.update(extra_cov)
    ev = {
        'property_id': rep.prop,
        'tier': rep.tier,
        'seed': seed,
        'level': level,
        'coverage': cov,
        'assumptions': assumptions,
        'wall_s': round(time.time() - rep.t0, 3),
        'violations': len(violations),
    }
    with open(os.path.join(ev_dir, rep.prop + '.json'), 'w') as f:
        json.dump(ev, f, indent=1)
    if replay_key:
        import shutil
        shutil.rmtree(ev_dir, ignore_errors=True)
    print('%s: %d obligations, %d discharged, %d excused by table, %d known finding(s), %d violation(s)  [%.1fs]' % (
        rep.prop, total, discharged, excused, len(known_hits), len(violations), time.time() - rep.t0))
    return 1 if violations else 0
