"""C07 — handles honour the Read, Seek and Write contracts (necessary structural conditions only).
Decided: CAN-FAIL (seek can report an error), ARITH (no unguarded position arithmetic), MUST-CALL (flush and drop write back),
sync writes the handle's own path under a write guard.  Not decided: behavioural equality with std::io::Cursor."""
import engine, panics, mustcall
from callgraph import CallGraph
from mir import callee_of, op_local
from panics import describe_operand

FILE = 'sys::fs::memfs::file::MemfsFile'
EXPLANATION = (
    "Necessary structural conditions of the handle contracts, decided on the MIR of every MemfsFile method: seek has an Err return (seeking "
    "before the start must be reportable); every potential panic site and signed->unsigned cast in the handle's arithmetic is dominated by an "
    "ordering test or covered by one table line whose structural side conditions are re-checked; Write::flush and Drop::drop reach sync on every "
    "path; sync stores the handle's own data under the handle's own path while holding a write guard. NOT decided: that reads, seeks and writes "
    "return exactly what std::io::Cursor returns for every call sequence (runtime value equality).")


def sync_shape(rep, F, cg):
    rep.rule('SYNC-SHAPE', 'MemfsFile::sync takes a write guard, tests that the entry still exists, and copies self.data into the data record '
             'stored under self.path (and nothing else into it); when the entry is gone it returns an error')
    name = '<%s>::sync' % FILE
    if name not in F.bodies:
        rep.add('SYNC-SHAPE', 'sync:exists', 'MemfsFile::sync exists', False, detail='anchor %s missing' % name)
        return
    B = cg.body(name)
    calls = {(t.get('callee') or '').split('::')[-1]: (i, t) for i, t in B.calls()}
    ok_guard = 'write_guard' in calls
    rep.add('SYNC-SHAPE', 'sync:write_guard', 'sync takes the write guard of the handle\'s filesystem', ok_guard, '%s:%d' % (B.file, B.line),
            '' if ok_guard else 'sync does not call write_guard')
    gf = calls.get('get_file_mut')
    okp = gf is not None and describe_operand(B, gf[1]['args'][1]) in ('deref(path)', 'path')
    path_src = None
    # `path` must be the payload of self.path
    for l in range(len(B.locals)):
        if B.local_name(l) == 'path':
            path_src = panics.describe_def(B, l)
    okp = okp and path_src is not None and 'self.path' in path_src
    rep.add('SYNC-SHAPE', 'sync:own-path', 'sync looks up the record stored under the handle\'s own path', okp, B.loc(gf[0]) if gf else '',
            '' if okp else 'get_file_mut is not keyed by self.path (path = %s)' % path_src)
    cf = calls.get('clone_from')
    okd = cf is not None and describe_operand(B, cf[1]['args'][0]).endswith('.data') and describe_operand(B, cf[1]['args'][1]) == 'self.data'
    rep.add('SYNC-SHAPE', 'sync:data', 'sync copies self.data into the stored record\'s data', okd, B.loc(cf[0]) if cf else '',
            '' if okd else 'the stored data is not updated from self.data')
    # the copy happens on EVERY path on which the record was found (not only when some condition on the data holds)
    from atomic import PairCheck, Mutation
    PC = PairCheck(F, cg, Mutation(F, cg))
    PC.after(rep, 'SYNC-SHAPE', 'sync:always-copies', name, lambda B_, i, t: (callee_of(t) or '').endswith('>::get_file_mut'),
             lambda B_, i, t: (t.get('callee') or '').endswith('Clone::clone_from') or (t.get('callee') or '').endswith('::clone_from'),
             [('none', '>::get_file_mut')], 'sync: whenever the stored record is found, self.data is copied into it (unconditionally)')
    ce = calls.get('contains_entry')
    oke = ce is not None
    # the missing-entry branch returns Err
    errs = [1 for i, j, s in B.assigns() if s['place']['l'] == 0 and s['rv']['k'] == 'aggregate' and s['rv'].get('variant') == 'Err']
    rep.add('SYNC-SHAPE', 'sync:missing-entry', 'sync reports an error when the target entry no longer exists', oke and bool(errs), '',
            '' if (oke and errs) else 'sync has no existence test / error return')


def seek_base(rep, F, cg):
    """`behaves like Cursor`: Start is absolute, Current is relative to the position, End is relative to the length of the data"""
    import re
    from errguard import structural_facts
    from panics import sdesc_operand, skey_call
    R = 'SEEK-BASE'
    rep.rule(R, 'in <MemfsFile as Seek>::seek the arm of each SeekFrom variant reads exactly the state that variant is relative to: Start none, Current self.pos '
             '(and not the data length), End the length of self.data (and neither self.pos nor any MemfsFile method, whose result could depend on the position)')
    fn = '<%s as std::io::Seek>::seek' % FILE
    if fn not in F.bodies:
        rep.add(R, 'seekbase:anchor', 'MemfsFile implements Seek', False, detail='anchor %s missing' % fn)
        return
    B = cg.body(fn)
    reads = {}
    for i in range(len(B.blocks)):
        vs = [v for d, v in structural_facts(B, i) if d == 'arg2' and v in ('Start', 'Current', 'End')]
        own = None
        t = B.term(i)
        if not vs:
            continue
        ds = set()
        for s in B.blocks[i]['stmts']:
            if s['k'] != 'assign':
                continue
            rv = s['rv']
            for o in ([rv['op']] if isinstance(rv.get('op'), dict) else []) + rv.get('ops', []) + [rv[k] for k in ('l', 'r', 'a') if isinstance(rv.get(k), dict)]:
                ds.add(sdesc_operand(B, o))
        if t['k'] == 'call':
            ds.add(skey_call(B, t))
        reads.setdefault(vs[0], set()).update(d for d in ds if 'arg1' in d)
    POS = re.compile(r'arg1\.pos\b')
    DATALEN = re.compile(r'\blen\(arg1\.data\)')
    METHOD = re.compile(r'\b[a-z_]+\(arg1[,)]')
    want = {'Start': (False, False), 'Current': (True, False), 'End': (False, True)}
    for v, (pos, dl) in want.items():
        r = reads.get(v, set())
        # the write `self.pos = ..` of the Start arm is followed by `Ok(self.pos)`: reading back the value just stored is not a dependence
        has_pos = any(POS.search(d) for d in r) and v != 'Start'
        has_len = any(DATALEN.search(d) for d in r)
        meth = sorted(d for d in r if METHOD.search(d))
        ok = has_pos == pos and has_len == dl and not meth
        rep.add(R, 'seekbase:%s' % v, 'SeekFrom::%s is resolved relative to %s' % (v, {'Start': 'nothing', 'Current': 'self.pos', 'End': 'self.data.len()'}[v]), ok,
                '%s:%d' % (B.file, B.line), '' if ok else 'the SeekFrom::%s arm reads %s (expected: self.pos %s, len(self.data) %s, no MemfsFile method call)' % (v, sorted(r), pos, dl))
    rep.floor(R, 'SeekFrom arms', len(reads), 3)


def run(rep, F, ctx):
    cg = CallGraph(F)
    ne = cg.never_err()
    rep.rule('CAN-FAIL', 'a function the property requires to report an error on some inputs has an Err return (is not NeverErr)')
    seek = '<%s as std::io::Seek>::seek' % FILE
    if seek in F.bodies:
        ok = seek not in ne
        B = cg.body(seek)
        rep.add('CAN-FAIL', 'canfail:seek', 'MemfsFile::seek can return an error (seeking before the start is an error)', ok, '%s:%d' % (B.file, B.line),
                '' if ok else 'MemfsFile::seek never returns Err: a negative position cannot be reported (it wraps instead)')
    else:
        rep.add('CAN-FAIL', 'canfail:seek', 'MemfsFile implements Seek', False, detail='anchor %s missing' % seek)
    panics.arith(rep, F, cg)
    rep.rule('MUST-CALL', 'every entry->return path of Write::flush and of Drop::drop for MemfsFile calls sync')
    for m, tr in (('flush', 'std::io::Write'), ('drop', 'std::ops::Drop')):
        n = '<%s as %s>::%s' % (FILE, tr, m)
        if n not in F.bodies:
            rep.add('MUST-CALL', 'mustcall:%s' % m, 'MemfsFile implements %s::%s' % (tr, m), False, detail='anchor %s missing' % n)
            continue
        mustcall.must_call(rep, 'MUST-CALL', 'mustcall:%s->sync' % m, cg.body(n), lambda t: callee_of(t) == '<%s>::sync' % FILE, 'MemfsFile::sync')
    # flush returns sync's result (errors are not swallowed)
    n = '<%s as std::io::Write>::flush' % FILE
    if n in F.bodies:
        B = cg.body(n)
        ok = B.norm_local(0).startswith('call@') and callee_of(B.term(int(B.norm_local(0).split('bb')[1]))) == '<%s>::sync' % FILE
        rep.add('MUST-CALL', 'mustcall:flush-returns-sync', 'flush returns the result of sync unchanged', ok, '%s:%d' % (B.file, B.line),
                '' if ok else 'flush does not return sync\'s result (a failed write-back would be reported as success)')
    sync_shape(rep, F, cg)
    seek_base(rep, F, cg)
    # Write::write appends to the handle's buffer
    n = '<%s as std::io::Write>::write' % FILE
    rep.rule('WRITE-BUF', 'Write::write stores the bytes into the handle\'s own buffer (self.data) and returns that call\'s result')
    if n in F.bodies:
        B = cg.body(n)
        cs = [(i, t) for i, t in B.calls()]
        ok = len(cs) == 1 and describe_operand(B, cs[0][1]['args'][0]) == 'self.data' and describe_operand(B, cs[0][1]['args'][1]) == 'buf'
        rep.add('WRITE-BUF', 'write:buffer', 'MemfsFile::write forwards (self.data, buf) to Vec<u8>::write', ok, '%s:%d' % (B.file, B.line),
                '' if ok else 'MemfsFile::write does not append buf to self.data')
    import mustcall as _mc
    _mc.handle_path(rep, F, cg)
    import siteguard as _sg
    _t = engine.load_table('site_guards.json')
    _sg.site_guard(rep, F, cg, _t, _t['_groups']['C07'])
    return engine.finish(
        rep, 'other', EXPLANATION,
        assumptions=['Vec<u8> as io::Write appends the whole buffer', 'the excuse table lines (tables/panic_excuses.json) state true invariants; their structural side conditions are re-checked on every run'],
        trusted_base=['rustc nightly MIR', 'extractor/', 'rules/panics.py, rules/mustcall.py'],
        checker_cmd='./check C07', seed=ctx['seed'])
