"""C12 — no call panics, hangs or wedges the filesystem.
Decided: NO-PANIC-UNDER-GUARD (the lock cannot be poisoned), LOCK-NEST (no self-deadlock), UNIT (byte vs char offsets, crate-wide), ARITH (handle arithmetic).
Not decided: termination; panic-freedom of arbitrary value computations outside these rules (inventory in evidence only)."""
import engine, locks, panics

EXPLANATION = (
    "Decided statically: (1) every potential panic site (MIR Assert, unwrap/expect, str/slice/map indexing, split_at, copy_from_slice ...) that can "
    "execute while a Memfs guard is held — in the owning body or transitively in any callee, dynamic target or destructor — is discharged by a "
    "dominating-guard idiom or excused by one table line stating its invariant, so a panic cannot poison the only lock and wedge the instance; "
    "(2) crate-wide, no string slice uses a character count as a byte offset (the multi-byte panic class of the public path/string helpers); "
    "(3) the handle type's position arithmetic is guarded; (4) no call, destructor or dynamic target executed while a guard is live can acquire the lock "
    "again (LOCK-NEST with FS-NONE, shared with C04): no Memfs call can hang on its own guard. NOT decided: termination ('bounded time'), and absence of panics in value computations "
    "outside those rules — the remaining potential panic sites of the public helpers are listed in the evidence as an inventory, not a verdict.")


def run(rep, F, ctx):
    A = locks.LockAnalysis(F)
    reach = panics.no_panic_under_guard(rep, F, A)
    # "hangs": a call that re-acquires the single lock while it holds a guard never returns (shared with C04)
    import p_C04
    p_C04.fs_none(rep, A)
    p_C04.lock_nest(rep, F, A)
    panics.unit(rep, F, A.cg)
    panics.arith(rep, F, A.cg)
    # every function of the library (VFS methods of both backends, traversal engine, path / string / iterator helpers): every potential panic site is discharged or excused
    panics.no_panic_helpers(rep, F, A.cg, lambda n: n.startswith(('sys::', '<sys::', '<T as core::', '<str as core::', '<std::', '<core::', 'core::')) and not n.startswith(('<testing', 'testing')) and not n.endswith('::assert_iter_eq'),          # (assert_iter_eq is a test oracle: it panics by design)
                            rule='NO-PANIC-HELPERS', floor=40)
    # inventory (evidence only) of potential panic sites in public helpers outside the armed regions
    inv = []
    for n in A.cg.names():
        b = F.bodies[n]
        f = b['span']['file']
        if not (f.endswith('core/iter.rs') or f.endswith('core/string.rs') or f.endswith('sys/fs/path.rs') or f.endswith('core/peekable.rs')):
            continue
        B = A.cg.body(n)
        for s in panics.panic_sites(B):
            if s.kind == 'ptrcheck':
                continue
            why = panics.discharge(B, s, B.term(s.bb))
            inv.append('%s at %s: %s' % (s.key, s.loc, 'idiom: ' + why if why else 'not discharged by an idiom'))
    rep.analysed['public_helper_panic_site_inventory'] = inv
    rep.note('inventory of potential panic sites in public path/string/iterator helpers (evidence only, not a verdict): %d sites, %d without an idiom' % (
        len(inv), sum(1 for x in inv if 'not discharged' in x)))
    import siteguard as _sg
    _t = engine.load_table('site_guards.json')
    _sg.site_guard(rep, F, A.cg, _t, _t['_groups']['C12'])
    return engine.finish(
        rep, 'other', EXPLANATION,
        assumptions=['std APIs panic only as documented (table MAY_PANIC in rules/panics.py); allocation failure / capacity overflow aborts are out of scope',
                     'the excuse table lines state true invariants (each with its reason; structural side conditions re-checked)',
                     'unit-step counters of >= 32 bits do not wrap within feasible time or memory'],
        trusted_base=['rustc nightly MIR (overflow / bounds asserts are explicit at mir-opt-level 0)', 'extractor/', 'rules/panics.py, rules/locks.py, rules/callgraph.py'],
        checker_cmd='./check C12', seed=ctx['seed'])
