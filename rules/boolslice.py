"""Exhaustive evaluation of a pure boolean slice of a MIR body: a fragment whose control flow depends only on a few boolean / discriminant
inputs (values touched only through comparisons — a finite set).  Used for the dir/file mode selection of the two _copy implementations."""
from mir import place_key, op_place

UNK = '?'


def _val(env, inputs, o):
    if o['k'] == 'const':
        if 'bool' in o:
            return 1 if o['bool'] else 0
        if 'int' in o:
            return int(o['int'])
        return UNK
    p = op_place(o)
    if p is None:
        return UNK
    k = place_key(p)
    if k in inputs:
        return inputs[k]
    if not p['p']:
        return env.get(p['l'], UNK)
    return UNK


def run(B, start_bb, inputs, max_steps=400):
    """inputs: place key (e.g. '_1.cdirs') -> int; discriminant inputs as 'discr:_1.mode' -> int.
    Returns env (local -> value) at the point where evaluation has to stop (call / unknown switch / return)."""
    env = {}
    bb = start_bb
    for _ in range(max_steps):
        blk = B.blocks[bb]
        for s in blk['stmts']:
            if s['k'] != 'assign' or s['place']['p']:
                continue
            l = s['place']['l']
            rv = s['rv']
            k = rv['k']
            if k == 'use':
                env[l] = _val(env, inputs, rv['op'])
            elif k == 'discr':
                env[l] = inputs.get('discr:' + place_key(rv['place']), env.get('discr:%d' % rv['place']['l'], UNK) if not rv['place']['p'] else UNK)
            elif k == 'unop' and rv['op'] == 'Not':
                v = _val(env, inputs, rv['a'])
                env[l] = UNK if v == UNK else (0 if v else 1)
            elif k == 'binop' and rv['op'] in ('Eq', 'Ne', 'BitAnd', 'BitOr'):
                a, b = _val(env, inputs, rv['l']), _val(env, inputs, rv['r'])
                if UNK in (a, b):
                    env[l] = UNK
                else:
                    env[l] = {'Eq': int(a == b), 'Ne': int(a != b), 'BitAnd': a & b, 'BitOr': a | b}[rv['op']]
            elif k == 'aggregate' and rv.get('adt') == 'std::option::Option':
                env[l] = rv['variant']      # 'Some' / 'None'
            else:
                env[l] = UNK
        t = blk['term']
        if t['k'] == 'goto':
            bb = t['target']
            continue
        if t['k'] == 'switch':
            v = _val(env, inputs, t['discr'])
            if v == UNK:
                return env, bb
            nxt = None
            for val, tb in t['targets']:
                if int(val) == v:
                    nxt = tb
            bb = nxt if nxt is not None else t['otherwise']
            continue
        return env, bb
    return env, bb
