"""C05 — abs() canonicalises identically on both backends; every method resolves through it.
Decided: ABS-FIRST, PIPELINE (expand -> trim_protocol -> clean -> walk -> mash), SIBLING (Memfs::_abs vs Stdfs::abs), EFFECT (no IO), FWD (PathExt).
Not decided: the value abs returns, idempotence, the exact failure set."""
import re
import engine, absrules, fwd, pathrules
from callgraph import CallGraph
from mir import callee_of, op_local
from panics import sdesc_operand, skey_call

MEMFS = 'sys::fs::memfs::vfs::Memfs'
STDFS = 'sys::fs::stdfs::Stdfs'
EXPLANATION = (
    "Decided: (1) 'every other VFS method interprets its path arguments through this same resolution' — a sanitizer dataflow over every path-like "
    "parameter of every VirtualFileSystem method of both backends (and the raw paths stored in CopyOpts) shows it reaches a storage / OS sink only "
    "through abs(), directly or via a callee that sanitizes it (ABS-FIRST); (2) both abs implementations run expand, then trim_protocol on its result, "
    "then clean on that, before anything else, test is_absolute, and the relative branch ends in mash(cwd-walk, rest) or the walked cwd (PIPELINE), with "
    "the same call skeleton modulo the cwd source (SIBLING), after the PathExt method forms are shown to be transparent forwarders (FWD); (3) neither abs "
    "reaches any IO API (EFFECT; allowed: env::var for expansion and, for Stdfs, env::current_dir). NOT decided: the value abs returns for all strings, "
    "idempotence, and the exact set of failing inputs.")

STEP = {'expand': ('sys::fs::path::expand', '<std::path::Path as sys::fs::path::PathExt>::expand'),
        'trim_protocol': ('sys::fs::path::trim_protocol', '<std::path::Path as sys::fs::path::PathExt>::trim_protocol'),
        'clean': ('sys::fs::path::clean', '<std::path::Path as sys::fs::path::PathExt>::clean'),
        'mash': ('sys::fs::path::mash', '<std::path::Path as sys::fs::path::PathExt>::mash'),
        'trim_first': ('sys::fs::path::trim_first', '<std::path::Path as sys::fs::path::PathExt>::trim_first'),
        'dir': ('sys::fs::path::dir', '<std::path::Path as sys::fs::path::PathExt>::dir'),
        'is_empty': ('sys::fs::path::is_empty', '<std::path::Path as sys::fs::path::PathExt>::is_empty')}


def step_of(t):
    c = callee_of(t) or ''
    for k, names in STEP.items():
        if c in names:
            return k
    return None


def pipeline(rep, F, cg, fn):
    short = ('Memfs' if 'memfs' in fn else 'Stdfs') + '::abs-helper'
    if fn not in F.bodies:
        rep.add('PIPELINE', 'pipeline:%s' % short, '%s exists' % fn, False, detail='anchor missing')
        return None
    B = cg.body(fn)
    steps = {}
    for i, t in B.calls():
        s = step_of(t)
        if s:
            steps.setdefault(s, []).append(i)
    probs = []
    for s in ('expand', 'trim_protocol', 'clean'):
        if len(steps.get(s, [])) != 1:
            probs.append('%s is called %d times (expected exactly once)' % (s, len(steps.get(s, []))))
    if not probs:
        e, tp, c = steps['expand'][0], steps['trim_protocol'][0], steps['clean'][0]
        if not (B.dominates(e, tp) and B.dominates(tp, c)):
            probs.append('order is not expand -> trim_protocol -> clean')
        def producer(call_bb):
            """the path-helper step (or other callee) that produced the first argument of the call at call_bb, following the mutable
            variable through its closest dominating definition, `?` payloads, derefs and plain moves"""
            o = B.term(call_bb)['args'][0]
            use = call_bb
            for _ in range(12):
                l = op_local(o)
                if l is None:
                    pl = o.get('place')
                    if pl is None:
                        return None
                    l = pl['l']
                d = B.reaching_def(l, use)
                if d is None:
                    return None
                if d[0] == 'call':
                    c = callee_of(d[3]) or ''
                    if c.endswith('Try>::branch') or c.endswith('::deref') or c.endswith('::as_ref') or c.endswith('::borrow'):
                        o = d[3]['args'][0]
                        use = d[1]
                        continue
                    return (step_of(d[3]) or c, d[1])
                rv = d[4]
                if rv['k'] in ('use', 'cast'):
                    o = rv['op']
                elif rv['k'] in ('ref', 'copyforderef'):
                    o = {'k': 'copy', 'place': rv['place']}
                else:
                    return None
                use = d[1]
            return None
        p_tp = producer(tp)
        p_c = producer(c)
        if not p_tp or p_tp != ('expand', e):
            probs.append('trim_protocol is applied to the result of %s, not of expand' % (p_tp,))
        if not p_c or p_c != ('trim_protocol', tp):
            probs.append('clean is applied to the result of %s, not of trim_protocol' % (p_c,))
        # expand is applied to the parameter
        a_e = sdesc_operand(B, B.term(e)['args'][0])
        if not re.search(r'arg\d', a_e):
            probs.append('expand is applied to %s, not to the path parameter' % a_e)
        # every Ok return is dominated by clean
        for i, j, s in B.assigns():
            rv = s['rv']
            if s['place']['l'] == 0 and rv['k'] == 'aggregate' and rv.get('variant') == 'Ok':
                if not B.dominates(c, i):
                    probs.append('an Ok return at %s is not preceded by clean' % B.loc(i))
                v = sdesc_operand(B, rv['ops'][0])
                if not (v.startswith('mash(') or v.startswith('var<PathBuf>') or v.startswith('clean(') or v.startswith('cwd(') or 'cwd' in v):
                    probs.append('Ok value %s is neither the cleaned path, the walked cwd nor mash(cwd, rest)' % v)
        # the absolute test exists on the cleaned value
        if not any((t.get('callee') or '') == '<std::path::Path>::is_absolute' for i, t in B.calls()):
            probs.append('no is_absolute test')
        # empty path exit precedes expand
        empt = steps.get('is_empty', [])
        if not empt or not all(B.dominates(x, e) for x in empt):
            probs.append('the empty-path test does not precede expand')
    rep.add('PIPELINE', 'pipeline:%s' % short, '%s runs empty-test, expand, trim_protocol, clean in this order on the chained value and ends in mash / cwd' % short,
            not probs, '%s:%d' % (B.file, B.line), '' if not probs else '%s: %s' % (short, '; '.join(probs)))
    skeleton = sorted(step_of(t) for i, t in B.calls() if step_of(t))
    return skeleton


def run(rep, F, ctx):
    cg = CallGraph(F)
    absrules.abs_first(rep, F, cg)
    rep.rule('PIPELINE', 'in Memfs::_abs and in Stdfs::abs: the empty-path test precedes expand; expand, trim_protocol and clean are each called once, in this '
             'dominance order, each on the previous result; every Ok return is dominated by clean and returns the cleaned path, the walked cwd, or mash(cwd, rest)')
    import roles
    R = roles.discover(F)
    memfs_abs = R.get('memfs_abs', '<%s>::_abs' % MEMFS)
    stdfs_abs = R.get('stdfs_abs', '<%s>::abs' % STDFS)
    s1 = pipeline(rep, F, cg, memfs_abs)
    s2 = pipeline(rep, F, cg, stdfs_abs)
    rep.rule('SIBLING', 'the two abs implementations call the same path helpers the same number of times (call skeleton equal modulo the cwd source)')
    ok = s1 is not None and s1 == s2
    rep.add('SIBLING', 'sibling:abs', 'Memfs::_abs and Stdfs::abs have the same path-helper call skeleton', ok, '', '' if ok else 'Memfs::_abs: %s vs Stdfs::abs: %s' % (s1, s2))
    # Memfs::abs delegates to _abs
    fn = '<%s as sys::fs::vfs::VirtualFileSystem>::abs' % MEMFS
    if fn in F.bodies:
        B = cg.body(fn)
        ok = any((callee_of(t) or '') == memfs_abs for i, t in B.calls()) and B.norm_local(0).startswith('call@')
        rep.add('SIBLING', 'sibling:Memfs::abs->_abs', 'Memfs::abs returns the result of _abs', ok, '%s:%d' % (B.file, B.line), '' if ok else 'Memfs::abs does not delegate to _abs')
    rep.rule('EFFECT', 'the transitive external-callee set of abs contains no IO API (std::fs, File, nix, unix::fs, set_current_dir, Path::{exists,metadata,...})')
    absrules.effect(rep, F, cg, memfs_abs, absrules.IO_EFFECT, 'Memfs::_abs does no IO', key='effect:Memfs::_abs')
    ext = absrules.effect(rep, F, cg, stdfs_abs, absrules.IO_EFFECT, 'Stdfs::abs does no IO (it may read env::current_dir and env::var)', key='effect:Stdfs::abs')
    rep.analysed['stdfs_abs_env_calls'] = sorted(c for c in ext if c.startswith('std::env::'))
    pathrules.join_own(rep, F, cg)
    rep.rule('FWD', 'the PathExt method forms used by Memfs::_abs are transparent forwarders to the free functions used by Stdfs::abs')
    n = fwd.static_forwarders(rep, F, 'std::path::Path', fwd.PATHEXT_TRAIT, 'sys::fs::path::{name}', False)
    rep.floor('FWD', 'PathExt forwarders', n, 21)
    import siteguard as _sg
    _t = engine.load_table('site_guards.json')
    _sg.site_guard(rep, F, cg, _t, _t['_groups']['C05'])
    return engine.finish(
        rep, 'other', EXPLANATION,
        assumptions=['results of other local VFS operations (e.g. mkfile, abs) are resolved paths', 'the sink table (rules/absrules.py IO_SINK + MemfsGuard accessors) lists where a path is interpreted'],
        trusted_base=['rustc nightly MIR', 'extractor/', 'rules/absrules.py (flow-insensitive taint, conservative)'],
        checker_cmd='./check C05', seed=ctx['seed'])
