"""C18 — XDG directory lookup honours the environment with the right precedence.
Decided: ENV-TABLE (variable / default table, list default on empty, uid-0 guard of getrids, priority structure of vfs.config_dir), SIBLING, EFFECT.
Not decided: the returned values under real environments; list parsing for all strings."""
import engine, envrules, absrules, setters
from callgraph import CallGraph
from mir import callee_of, op_local
from panics import skey_call, sdesc_operand, known_facts, describe_operand

TR = 'sys::fs::vfs::VirtualFileSystem'
MEMFS = 'sys::fs::memfs::vfs::Memfs'
STDFS = 'sys::fs::stdfs::Stdfs'
EXPLANATION = (
    "Decided structural clauses: each XDG function reads exactly the variable the specification names and falls back to exactly the specification's "
    "default (the string literals of each body equal the table; the Ok arm's value is built from the variable's value, the fallback from $HOME + the "
    "documented components in order; the list functions route through parse_paths and take the default when it returns empty, defaults in the "
    "documented order); getrids reads SUDO_UID / SUDO_GID only under uid == 0, returns the parsed pair in (uid, gid) order and (uid, gid) otherwise; "
    "vfs.config_dir(name) searches config_dir() inserted at index 0 of sys_config_dirs(), in order, returning the first directory for which "
    "exists(dir/name) holds, identically on both backends; the *_dir functions perform no IO. This catches the copy-paste class (data_dir reading "
    "XDG_CONFIG_HOME, 'state' <-> 'share') that no test notices. NOT decided: the returned values under real environments and colon-list parsing for "
    "all strings.")


def run(rep, F, ctx):
    cg = CallGraph(F)
    table = engine.load_table('env_table.json')
    rep.rule('ENV-TABLE', 'per function: the string literals of the body equal {variable} + {documented default components}; the calls var(VAR), '
             'from(var(VAR) payload) / parse_paths(var(VAR) payload) and the fallback expression (mash chain on home_dir()? in documented order) are present')
    for fn, spec in sorted(table.items()):
        short = fn.split('::')[-1]
        if fn not in F.bodies:
            rep.add('ENV-TABLE', 'envtable:%s' % short, '%s exists' % fn, False, detail='anchor missing')
            continue
        B = cg.body(fn)
        # the function together with the helpers it calls that did not exist in the confirmed tree (a shared `xdg_dirs(var, default)` helper is still this function)
        import siteguard as _sg, inline as _inl
        bodies = list(_sg.walk_bodies(F, cg, fn))
        lits = sorted({s for HB, _a, _p in bodies for i, s in envrules.string_consts(F, HB)})
        ok_l = lits == sorted(spec['literals'])
        rep.add('ENV-TABLE', 'envtable:%s:literals' % short, '%s mentions exactly the literals %s' % (short, spec['literals']), ok_l, '%s:%d' % (B.file, B.line),
                '' if ok_l else '%s uses the literals %s; the specification says %s (wrong variable or default?)' % (short, lits, sorted(spec['literals'])))
        have = {_inl.subst(skey_call(HB, t), amap) for HB, amap, _p in bodies for i, t in HB.calls()}
        have |= {'from(' + h[5:] for h in have if h.startswith('into(')}          # x.into() with a PathBuf target is PathBuf::from(x)
        miss = [c for c in spec['calls'] if c not in have]
        rep.add('ENV-TABLE', 'envtable:%s:calls' % short, '%s reads %s and builds its fallback as documented' % (short, spec['var']), not miss, '%s:%d' % (B.file, B.line),
                '' if not miss else '%s lacks the documented step(s) %s' % (short, miss))
        if spec.get('list'):
            # the parsed list is used only when non-empty
            okp = False
            for HB, amap, _p in bodies:
                for i, j, st in HB.assigns():
                    if st['rv']['k'] == 'use':
                        d = sdesc_operand(HB, st['rv']['op'])
                        if d.startswith('parse_paths(') and d.endswith('?'):
                            facts = known_facts(HB, i)
                            if any(ds.startswith('is_empty(') and not tr for ds, tr in facts):
                                okp = True
            rep.add('ENV-TABLE', 'envtable:%s:empty-default' % short, '%s returns the parsed list only when it is non-empty (default otherwise)' % short, okp,
                    '%s:%d' % (B.file, B.line), '' if okp else '%s does not guard the parsed list with is_empty(): an empty variable yields an empty list instead of the default' % short)
            # default order
            order = []
            for HB, amap, _p in bodies:
                for i, t in sorted(HB.calls()):
                    k = _inl.subst(skey_call(HB, t), amap)
                    if k.startswith("into('/"):
                        k = 'from' + k[4:]
                    if k.startswith("from('/"):
                        order.append(k[6:-2])
            ok_o = order == spec['defaults_in_order']
            rep.add('ENV-TABLE', 'envtable:%s:default-order' % short, '%s lists its defaults in the documented order %s' % (short, spec['defaults_in_order']), ok_o,
                    '%s:%d' % (B.file, B.line), '' if ok_o else 'defaults are built in the order %s' % order)
    rep.floor('ENV-TABLE', 'XDG functions', sum(1 for fn in table if fn in F.bodies), 8)

    # getrids
    rep.rule('GETRIDS', 'getrids reads SUDO_UID and SUDO_GID only on the uid == 0 arm, returns (parsed SUDO_UID, parsed SUDO_GID) in that order when both parse, and '
             '(uid, gid) on every other path')
    fn = 'sys::user::getrids'
    if fn in F.bodies:
        B = cg.body(fn)
        var_calls = [(i, skey_call(B, t)) for i, t in B.calls() if (t.get('callee') or '') == 'std::env::var']
        names = sorted(k for i, k in var_calls)
        ok_names = names == ["var('SUDO_GID')", "var('SUDO_UID')"]
        # dominated by the value-0 edge of a switch on arg1
        ok_dom = bool(var_calls)
        for (i, k) in var_calls:
            good = False
            for d in B.dom[i]:
                t = B.term(d)
                if t['k'] == 'switch' and B.norm_operand(t['discr']) == 'arg1':
                    z = [tb for v, tb in t['targets'] if v == '0']
                    if z and B.dominates(z[0], i) and B.preds[z[0]] == [d]:
                        good = True
            ok_dom = ok_dom and good
        rets = []
        for i, j, s in B.assigns():
            if s['place']['l'] == 0 and s['rv']['k'] == 'aggregate':
                rets.append([sdesc_operand(B, o) for o in s['rv']['ops']])
        parsed = [r for r in rets if r != ['arg1', 'arg2']]
        ok_ret = len(parsed) == 1 and "parse(tuple(var('SUDO_UID'),var('SUDO_GID')).0 as Ok.0)" in parsed[0][0] and parsed[0][0].endswith('.0 as Ok.0') \
            and "parse(tuple(var('SUDO_UID'),var('SUDO_GID')).1 as Ok.0)" in parsed[0][1] and parsed[0][1].endswith('.1 as Ok.0') and any(r == ['arg1', 'arg2'] for r in rets)
        rep.add('GETRIDS', 'getrids:vars', 'getrids reads exactly SUDO_UID and SUDO_GID', ok_names, '%s:%d' % (B.file, B.line), '' if ok_names else 'reads %s' % names)
        rep.add('GETRIDS', 'getrids:uid0', 'the SUDO_* lookups happen only when uid == 0', ok_dom, '%s:%d' % (B.file, B.line),
                '' if ok_dom else 'SUDO_UID / SUDO_GID are consulted for a non-root uid')
        rep.add('GETRIDS', 'getrids:returns', 'getrids returns (parsed SUDO_UID, parsed SUDO_GID) or (uid, gid)', ok_ret, '%s:%d' % (B.file, B.line),
                '' if ok_ret else 'return values are %s' % rets)
    else:
        rep.add('GETRIDS', 'getrids:anchor', 'getrids exists', False, detail='anchor missing')

    # vfs.config_dir priority structure
    rep.rule('PRIORITY', 'vfs.config_dir(name): the candidate list is sys_config_dirs() with config_dir() inserted at constant index 0, iterated in order; the '
             'function returns Some(candidate) on the exists(candidate.mash(name)) edge and None after the loop')
    sk = {}
    for be, fn in (('memfs', '<%s as %s>::config_dir' % (MEMFS, TR)), ('stdfs', '<%s>::config_dir' % STDFS)):
        if fn not in F.bodies:
            rep.add('PRIORITY', 'priority:%s' % be, '%s exists' % fn, False, detail='anchor missing')
            continue
        B = cg.body(fn)
        keys = [skey_call(B, t) for i, t in B.calls()]
        ins = [k for k in keys if k.startswith('insert(')]
        ok_ins = ins == ['insert(sys_config_dirs()?,0,config_dir()?)']
        ex = [(i, t) for i, t in B.calls() if (callee_of(t) or '').split('::')[-1] == 'exists']
        ok_ex = len(ex) == 1 and 'mash(' in sdesc_operand(B, ex[0][1]['args'][-1])
        some = [(i, sdesc_operand(B, s['rv']['ops'][0])) for i, j, s in B.assigns() if s['place']['l'] == 0 and s['rv']['k'] == 'aggregate' and s['rv'].get('variant') == 'Some']
        ok_some = len(some) == 1 and bool(ex) and any(ds.startswith('exists(') and tr for ds, tr in known_facts(B, some[0][0]))
        iters = [k for k in keys if k.startswith('into_iter(')]
        ok_it = len(iters) == 1 and 'sys_config_dirs()' in iters[0]
        # the insertion at the front happens on every path to the search loop (it dominates the iteration)
        ins_bb = [i for i, t in B.calls() if skey_call(B, t).startswith('insert(')]
        it_bb = [i for i, t in B.calls() if skey_call(B, t).startswith('into_iter(')]
        ok_dom = bool(ins_bb) and bool(it_bb) and all(B.dominates(a, b) for a in ins_bb for b in it_bb)
        ok = ok_ins and ok_ex and ok_some and ok_it and ok_dom
        rep.add('PRIORITY', 'priority:%s' % be, '%s searches [config_dir()] + sys_config_dirs() in order and returns the first hit' % fn, ok, '%s:%d' % (B.file, B.line),
                '' if ok else '%s: insert=%s unconditional=%s exists-on-mash=%s returns-on-hit=%s iterates-list=%s — the user config directory is not always searched first' % (fn, ins, ok_dom, ok_ex, ok_some, iters))
        import re as _re
        shift = (lambda k: _re.sub(r'arg(\d)', lambda m: 'arg%d' % (int(m.group(1)) - 1), k.replace('exists(arg1,', 'exists('))) if be == 'memfs' else (lambda k: k)
        sk[be] = sorted(shift(k) for k in keys if not k.startswith('deref') and not k.startswith('as_ref'))
    ok = len(sk) == 2 and sk['memfs'] == sk['stdfs']
    rep.add('SIBLING', 'sibling:config_dir', 'Memfs::config_dir and Stdfs::config_dir have the same call skeleton', ok, '', '' if ok else '%s vs %s' % (sk.get('memfs'), sk.get('stdfs')))
    rep.rule('SIBLING', 'the two backends\' config_dir implementations make the same calls on the same values (modulo the receiver of exists)')

    rep.rule('EFFECT', 'the XDG *_dir / *_dirs functions reach no IO API (they only read environment variables)')
    for fn in sorted(table):
        absrules.effect(rep, F, cg, fn, absrules.IO_EFFECT, '%s performs no IO' % fn.split('::')[-1], key='effect:%s' % fn.split('::')[-1])
    import primtable as _pt
    _pt.prim_table(rep, F, cg, engine.load_table('primitives.json'), _pt.GROUPS['C18'])
    import siteguard as _sg
    _t = engine.load_table('site_guards.json')
    _sg.site_guard(rep, F, cg, _t, _t['_groups']['C18'])
    return engine.finish(
        rep, 'other', EXPLANATION,
        assumptions=['tables/env_table.json transcribes the XDG base directory specification as documented in sys::user'],
        trusted_base=['rustc nightly MIR', 'extractor/ (string literal constants)', 'rules/envrules.py, rules/p_C18.py'],
        checker_cmd='./check C18', seed=ctx['seed'])
