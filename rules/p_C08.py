"""C08 — traversal yields exactly the selected entries.
Decided: FILTER-DOM, FILTER-INSTALL, CHAIN (listing helpers' configuration on both backends), SETTER (Entries builders), SNAPSHOT.
Not decided: the yielded sequence for all trees and option combinations, order, termination."""
import engine, setters, locks, p_C04
from callgraph import CallGraph

EXPLANATION = (
    "Decided structural clauses: (1) 'none that a filter rejects' — every site where EntriesIter hands out an entry is reached only through the "
    "accepting edge of the filter (or the None arm of its lookup), deferred contents_first directories included (FILTER-DOM); the files()/dirs() flags "
    "install is_file/is_dir closures respectively (FILTER-INSTALL); (2) the property's last sentence — paths/dirs/files/all_* iterate exactly "
    "entries(p).min_depth(1)[.max_depth(1)].sort_by_name()[.dirs()|.files()] on BOTH backends (CHAIN, 12 obligations); (3) every Entries builder "
    "assigns exactly its documented field(s) (SETTER); (4) the Memfs iterator closures hold a snapshot, never the filesystem (SNAPSHOT). NOT decided: "
    "the yielded sequence for all trees/option combinations, sibling order, exactly-once, termination and LinkLooping detection (runtime values).")


def run(rep, F, ctx):
    A = locks.LockAnalysis(F)
    cg = A.cg
    setters.filter_dom(rep, F, cg)
    setters.filter_install(rep, F, cg)
    setters.chain(rep, F, cg, engine.load_table('chains.json'), ctors=A.closure_free_constructors())
    t = engine.load_table('setters.json')
    setters.setter(rep, F, cg, {k: v for k, v in t.items() if k.startswith('<sys::fs::entries::Entries>')})
    p_C04.snapshot(rep, F, A)
    return engine.finish(
        rep, 'other', EXPLANATION,
        assumptions=['the builder / chain tables transcribe the documented behaviour of each builder and of the six listing helpers'],
        trusted_base=['rustc nightly MIR', 'extractor/', 'rules/setters.py'],
        checker_cmd='./check C08', seed=ctx['seed'])
