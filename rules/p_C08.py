"""C08 — traversal yields exactly the selected entries.
Decided: FILTER-DOM, FILTER-INSTALL, CHAIN (listing helpers' configuration on both backends), SETTER (Entries builders), SNAPSHOT.
Not decided: the yielded sequence for all trees and option combinations, order, termination."""
import engine, setters, locks, p_C04
from callgraph import CallGraph

EXPLANATION = (
    "Decided structural clauses: (1) 'none that a filter rejects' — every site where EntriesIter hands out an entry is reached only through the "
    "accepting edge of the filter (or the None arm of its lookup), deferred contents_first directories included (FILTER-DOM); the files()/dirs() flags "
    "install is_file/is_dir closures respectively (FILTER-INSTALL); (2) the property's last sentence — paths/dirs/files/all_* iterate exactly "
    "entries(p).min_depth(1)[.max_depth(1)].sort_by_name()[.dirs()|.files()] on BOTH backends (CHAIN, 12 obligations); (3) every Entries builder "
    "assigns exactly its documented field(s) (SETTER); (4) the Memfs iterator closures hold a snapshot, never the filesystem (SNAPSHOT). NOT decided: "
    "the yielded sequence for all trees/option combinations, sibling order, exactly-once, termination and LinkLooping detection (runtime values).")


def loop_detect(rep, F, cg):
    from mir import callee_of
    from panics import known_facts, skey_call
    rep.rule('LOOP-DETECT', 'the LinkLooping error in EntriesIter::process is raised exactly under is_symlink(entry) && self.iters.iter().any(|x| x.path() == entry.path()): '
             'the followed link is compared against the paths of the directories currently on the iterator stack (anchor: loop detection against the iterator stack)')
    fn = '<sys::fs::entries::EntriesIter>::process'
    if fn not in F.bodies:
        rep.add('LOOP-DETECT', 'loopdetect:anchor', '%s exists' % fn, False, detail='anchor missing')
        return
    B = cg.body(fn)
    sites = [i for i, t in B.calls() if (callee_of(t) or '').endswith('PathError>::link_looping')]
    ok = bool(sites)
    why = []
    for i in sites:
        facts = known_facts(B, i)
        anyf = [d for d, tr in facts if tr and d.startswith('any(') and 'iters' in d]
        sym = [d for d, tr in facts if tr and d.startswith('is_symlink(')]
        if not anyf or not sym:
            ok = False
            why.append('the LinkLooping exit at %s is not guarded by is_symlink(entry) && any(self.iters ..): guarded by %s' % (B.loc(i), [d for d, tr in facts if tr]))
    # the closure given to any() compares the stacked iterator's path with the entry's path
    cl_ok = False
    for n in F.bodies:
        if n.startswith(fn + '::{closure'):
            C = cg.body(n)
            ks = [skey_call(C, t) for i, t in C.calls()]
            if any(k.startswith('eq(path(') and 'upvar' in k or k.startswith('eq(path(arg2),path(') for k in ks) and any(k.startswith('path(arg2)') for k in ks):
                callees = [callee_of(t) or '' for i, t in C.calls()]
                if any(c.endswith('EntryIter>::path') for c in callees) and any(c.endswith('Entry>::path') or c.endswith('Entry::path') for c in callees):
                    cl_ok = True
    if not cl_ok:
        ok = False
        why.append('no closure in process compares EntryIter::path(x) with Entry::path(entry) for equality')
    rep.add('LOOP-DETECT', 'loopdetect:process', 'link loops are detected against the stack of directories being iterated', ok, '%s:%d' % (B.file, B.line),
            '' if ok else '; '.join(why) + ' — a link cycle through another followed link is not detected and traversal does not terminate')


def run(rep, F, ctx):
    A = locks.LockAnalysis(F)
    cg = A.cg
    setters.filter_dom(rep, F, cg)
    setters.filter_install(rep, F, cg)
    setters.chain(rep, F, cg, engine.load_table('chains.json'), ctors=A.closure_free_constructors())
    t = engine.load_table('setters.json')
    setters.setter(rep, F, cg, {k: v for k, v in t.items() if k.startswith('<sys::fs::entries::Entries>')})
    p_C04.snapshot(rep, F, A)
    loop_detect(rep, F, cg)
    return engine.finish(
        rep, 'other', EXPLANATION,
        assumptions=['the builder / chain tables transcribe the documented behaviour of each builder and of the six listing helpers'],
        trusted_base=['rustc nightly MIR', 'extractor/', 'rules/setters.py'],
        checker_cmd='./check C08', seed=ctx['seed'])
