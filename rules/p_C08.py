"""C08 — traversal yields exactly the selected entries.
Decided: FILTER-DOM, FILTER-INSTALL, CHAIN (listing helpers' configuration on both backends), SETTER (Entries builders), SNAPSHOT.
Not decided: the yielded sequence for all trees and option combinations, order, termination."""
import engine, setters, locks, p_C04
from callgraph import CallGraph

EXPLANATION = (
    "Decided structural clauses: (1) 'none that a filter rejects' — every site where EntriesIter hands out an entry is reached only through the "
    "accepting edge of the filter (or the None arm of its lookup), deferred contents_first directories included (FILTER-DOM); the files()/dirs() flags "
    "install is_file/is_dir closures respectively (FILTER-INSTALL); (2) the property's last sentence — paths/dirs/files/all_* iterate exactly "
    "entries(p).min_depth(1)[.max_depth(1)].sort_by_name()[.dirs()|.files()] on BOTH backends (CHAIN, 12 obligations); (3) every Entries builder "
    "assigns exactly its documented field(s) (SETTER); (4) the Memfs iterator closures hold a snapshot, never the filesystem (SNAPSHOT). NOT decided: "
    "the yielded sequence for all trees/option combinations, sibling order, exactly-once, termination and LinkLooping detection (runtime values).")


def loop_detect(rep, F, cg):
    from mir import callee_of
    from panics import known_facts, skey_call
    rep.rule('LOOP-DETECT', 'the LinkLooping error in EntriesIter::process is raised exactly under is_symlink(entry) && self.iters.iter().any(|x| x.path() == entry.path()): '
             'the followed link is compared against the paths of the directories currently on the iterator stack (anchor: loop detection against the iterator stack)')
    fn = '<sys::fs::entries::EntriesIter>::process'
    if fn not in F.bodies:
        rep.add('LOOP-DETECT', 'loopdetect:anchor', '%s exists' % fn, False, detail='anchor missing')
        return
    B = cg.body(fn)
    sites = [i for i, t in B.calls() if (callee_of(t) or '').endswith('PathError>::link_looping')]
    ok = bool(sites)
    why = []
    for i in sites:
        facts = known_facts(B, i)
        anyf = [d for d, tr in facts if tr and d.startswith('any(') and 'iters' in d]
        sym = [d for d, tr in facts if tr and d.startswith('is_symlink(')]
        if not anyf or not sym:
            ok = False
            why.append('the LinkLooping exit at %s is not guarded by is_symlink(entry) && any(self.iters ..): guarded by %s' % (B.loc(i), [d for d, tr in facts if tr]))
    # the closure given to any() compares the stacked iterator's path with the entry's path
    cl_ok = False
    for n in F.bodies:
        if n.startswith(fn + '::{closure'):
            C = cg.body(n)
            ks = [skey_call(C, t) for i, t in C.calls()]
            if any(k.startswith('eq(path(') and 'upvar' in k or k.startswith('eq(path(arg2),path(') for k in ks) and any(k.startswith('path(arg2)') for k in ks):
                callees = [callee_of(t) or '' for i, t in C.calls()]
                if any(c.endswith('EntryIter>::path') for c in callees) and any(c.endswith('Entry>::path') or c.endswith('Entry::path') for c in callees):
                    cl_ok = True
    if not cl_ok:
        ok = False
        why.append('no closure in process compares EntryIter::path(x) with Entry::path(entry) for equality')
    rep.add('LOOP-DETECT', 'loopdetect:process', 'link loops are detected against the stack of directories being iterated', ok, '%s:%d' % (B.file, B.line),
            '' if ok else '; '.join(why) + ' — a link cycle through another followed link is not detected and traversal does not terminate')


def depth_window(rep, F, cg):
    """min_depth clause of `exactly the entries the options denote`: nothing shallower than min_depth is yielded or deferred"""
    import re
    from mir import callee_of
    from errguard import structural_facts
    from panics import skey_call
    R = 'DEPTH-WINDOW'
    rep.rule(R, 'in EntriesIter::process every site that hands an entry on — the push onto the deferred (contents_first) stack and the Some(Ok(entry)) return — is reached '
             'only through the false edge of `depth < opts.min_depth`, and `depth` is the length of the iterator stack read BEFORE the entry\'s own iterator is pushed')
    fn = '<sys::fs::entries::EntriesIter>::process'
    if fn not in F.bodies:
        rep.add(R, 'depthwindow:anchor', '%s exists' % fn, False, detail='anchor missing')
        return
    B = cg.body(fn)
    MIN = re.compile(r'^Lt\((.*),[^,]*min_depth\)$')
    n = 0
    pushes = [(i, skey_call(B, t)) for i, t in B.calls() if (callee_of(t) or '').endswith('Vec<T, A>>::push')]
    for i, k in pushes:
        if 'deferred' not in k:
            continue
        n += 1
        fs = structural_facts(B, i)
        ok = any(MIN.match(d) and v is False for d, v in fs)
        rep.add(R, 'depthwindow:defer', 'a directory is deferred only when depth >= min_depth', ok, B.loc(i),
                '' if ok else 'the push onto the deferred stack (%s) is reached without passing `depth < min_depth == false` (facts: %s): directories shallower than '
                'min_depth are yielded after their contents' % (k, fs))
    for i, j, s in B.assigns():
        if s['place']['l'] == 0 and not s['place']['p'] and s['rv']['k'] == 'aggregate' and s['rv'].get('variant') == 'Some':
            fs = structural_facts(B, i)
            if any(v == 'Err' for d, v in fs) or any(d.startswith('any(') and v is True for d, v in fs):
                continue          # error exits (pre_op / iter_from failed, link loop)
            n += 1
            ok = any(MIN.match(d) and v is False for d, v in fs)
            rep.add(R, 'depthwindow:yield', 'an entry is yielded only when depth >= min_depth', ok, B.loc(i),
                    '' if ok else 'Some(Ok(entry)) is returned without passing `depth < min_depth == false` (facts: %s)' % (fs,))
    # depth is read before the push of the entry's own iterator
    iter_push = [i for i, k in pushes if 'deferred' not in k]
    lens = []
    for bi, bj, st in B.assigns():
        rv = st['rv']
        if rv['k'] == 'binop' and rv['op'] in ('Lt', 'Le', 'Gt', 'Ge') and ('min_depth' in str(B.norm_operand(rv['r'])) or 'min_depth' in str(B.norm_operand(rv['l']))):
            other = rv['l'] if 'min_depth' in str(B.norm_operand(rv['r'])) else rv['r']
            for o in B.op_origins(other):
                if isinstance(o, tuple) and o[0] == 'call' and (callee_of(B.term(o[1])) or '').endswith('Vec<T, A>>::len'):
                    lens.append(o[1])
    ok = bool(iter_push) and bool(lens) and all(l not in B.reachable_from(p) for p in iter_push for l in lens)
    rep.add(R, 'depthwindow:depth-before-push', 'the depth compared with min_depth is read before the entry\'s own iterator is pushed', ok, '%s:%d' % (B.file, B.line),
            '' if ok else 'the iterator-stack length compared with min_depth (len sites %s) can be evaluated after the push of the entry\'s own iterator (push sites %s): '
            'directories are judged one level too deep' % (lens, iter_push))
    rep.floor(R, 'hand-on sites', n, 2)


def run(rep, F, ctx):
    A = locks.LockAnalysis(F)
    cg = A.cg
    setters.filter_dom(rep, F, cg)
    setters.filter_install(rep, F, cg)
    setters.chain(rep, F, cg, engine.load_table('chains.json'), ctors=A.closure_free_constructors())
    t = engine.load_table('setters.json')
    setters.setter(rep, F, cg, {k: v for k, v in t.items() if k.startswith('<sys::fs::entries::Entries>')})
    p_C04.snapshot(rep, F, A)
    loop_detect(rep, F, cg)
    depth_window(rep, F, cg)
    import siteguard as _sg
    _t = engine.load_table('site_guards.json')
    _sg.site_guard(rep, F, cg, _t, _t['_groups']['C08'])
    return engine.finish(
        rep, 'other', EXPLANATION,
        assumptions=['the builder / chain tables transcribe the documented behaviour of each builder and of the six listing helpers'],
        trusted_base=['rustc nightly MIR', 'extractor/', 'rules/setters.py'],
        checker_cmd='./check C08', seed=ctx['seed'])
