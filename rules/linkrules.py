"""DEPENDS / GUARDED-BY / NOFOLLOW / META-CONSIST — symlink and mode rules (C10, C11)."""
import re
from mir import Body, callee_of, op_local
from atomic import PairCheck, Mutation
from panics import describe_local, describe_operand, known_facts, sdesc_operand


def guarded_sites(rep, rule, keyprefix, F, cg, fn, site_pred, edge_sets, what, fail_msg, P):
    """every path from the entry of fn to each site passes, for EACH edge set in edge_sets, at least one of its edges
    edge_sets: list of lists of ('true'|'false'|'none', pattern)"""
    if fn not in F.bodies:
        rep.add(rule, '%s:%s' % (keyprefix, fn), '%s exists' % fn, False, detail='anchor %s not found' % fn)
        return 0
    B = cg.body(fn)
    sites = [i for i, t in B.calls() if site_pred(B, i, t)]
    n = 0
    for k, site in enumerate(sites):
        n += 1
        probs = []
        for es in edge_sets:
            esc = P.escape_edges(B, es)
            p = P.path_avoiding(B, [0], {site}, set(), esc)
            if 0 == site:
                p = [0]
            if p is not None:
                probs.append((es, p))
        ok = not probs
        c = callee_of(B.term(site)) or ''
        rep.add(rule, '%s:%s:%s#%d' % (keyprefix, fn, c.split('::')[-1], k), what % {'fn': fn, 'site': c.split('::')[-1]}, ok, B.loc(site),
                '' if ok else fail_msg % {'fn': fn, 'site': c.split('::')[-1], 'loc': B.loc(site), 'missing': ' / '.join(str([x[1] for x in es]) for es, p in probs)},
                [] if ok else ['path: ' + ' -> '.join('bb%d' % x for x in probs[0][1][:14])])
    return n
