"""C13 — the Vfs and VfsEntry enums are transparent wrappers (FWD + INHERIT, decided completely)."""
import engine, fwd

EXPLANATION = (
    "Static proof by MIR shape over every method: each wrapper method body is an exhaustive switch on self whose arm for "
    "variant V(x) consists of exactly one call to the same-named method of the wrapped backend with x as receiver and the "
    "wrapper's own parameters in order, the call's result being the return value (optionally through the wrapper's own "
    "identity `upcast`); Stdfs's trait impl forwards to the same-named inherent function; each backend's upcast builds its own "
    "variant; trait defaults the wrapper inherits are overridden by no backend. A body with that shape has no behaviour of its "
    "own, so the wrapper call equals the direct call for every input. Method lists are read from the trait definitions on every run.")


def run(rep, F, ctx):
    rep.rule('FWD', fwd.__doc__.split('\n\n', 1)[1] if '\n\n' in fwd.__doc__ else fwd.__doc__)
    rep.rule('INHERIT', 'a trait method the wrapper does not override (so it runs the trait default on the wrapper) is overridden by no backend either')
    n1 = fwd.enum_wrapper(rep, F, 'sys::fs::vfs::Vfs', fwd.VFS_TRAIT,
                          {'Stdfs': 'sys::fs::stdfs::Stdfs', 'Memfs': 'sys::fs::memfs::vfs::Memfs'})
    n2 = fwd.enum_wrapper(rep, F, 'sys::fs::entry::VfsEntry', fwd.ENTRY_TRAIT,
                          {'Stdfs': 'sys::fs::stdfs::entry::StdfsEntry', 'Memfs': 'sys::fs::memfs::entry::MemfsEntry'})
    n3 = fwd.static_forwarders(rep, F, 'sys::fs::stdfs::Stdfs', fwd.VFS_TRAIT, '<sys::fs::stdfs::Stdfs>::{name}', True, skip=('upcast',))
    n4 = fwd.static_forwarders(rep, F, 'std::path::Path', fwd.PATHEXT_TRAIT, 'sys::fs::path::{name}', False)
    fwd.upcast_builds_own_variant(rep, F, 'sys::fs::stdfs::Stdfs', fwd.VFS_TRAIT, 'sys::fs::vfs::Vfs', 'Stdfs')
    fwd.upcast_builds_own_variant(rep, F, 'sys::fs::memfs::vfs::Memfs', fwd.VFS_TRAIT, 'sys::fs::vfs::Vfs', 'Memfs')
    fwd.upcast_builds_own_variant(rep, F, 'sys::fs::stdfs::entry::StdfsEntry', fwd.ENTRY_TRAIT, 'sys::fs::entry::VfsEntry', 'Stdfs')
    fwd.upcast_builds_own_variant(rep, F, 'sys::fs::memfs::entry::MemfsEntry', fwd.ENTRY_TRAIT, 'sys::fs::entry::VfsEntry', 'Memfs')
    rep.floor('FWD', 'Vfs arms', n1, 104)
    rep.floor('FWD', 'VfsEntry arms', n2, 28)
    rep.floor('FWD', 'Stdfs forwarders', n3, 51)
    rep.floor('FWD', 'PathExt forwarders', n4, 21)
    rep.analysed['vfs_arms'] = n1
    rep.analysed['vfsentry_arms'] = n2
    rep.analysed['stdfs_forwarders'] = n3
    rep.analysed['pathext_forwarders'] = n4
    import siteguard as _sg
    from callgraph import CallGraph as _CG
    _t = engine.load_table('site_guards.json')
    _sg.site_guard(rep, F, _CG(F), _t, _t['_groups']['C13'])
    return engine.finish(
        rep, 'proof', EXPLANATION,
        assumptions=['rustc nightly MIR construction and trait resolution are correct',
                     'a body consisting only of moves, one resolved call and a return has no behaviour besides that call'],
        trusted_base=['rustc 1.97.0-nightly type checker / MIR builder', 'extractor/ (rivia-facts)', 'rules/fwd.py matcher'],
        checker_cmd='./check C13', seed=ctx['seed'])
