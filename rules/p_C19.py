"""C19 — core helpers; decided clause: a defer guard runs its closure exactly once when its scope ends, in reverse
order of creation, on every exit.  Not decided: slice/drop index arithmetic, size, to_bool, trim_suffix, has, take_while_p."""
import engine, mustcall
from callgraph import CallGraph
from mir import Body, callee_of, op_local

NEEDS_HARNESS = True
EXPLANATION = (
    "Given Rust's drop semantics the defer clause is decided structurally: Defer::drop calls the stored closure on every path, exactly once and not "
    "in a loop; defer() returns the guard built from its argument and nothing else; the defer! macro, expanded in a probe function, binds the guard "
    "to a variable that lives to the end of the scope (its drop comes after the following statement on the normal path AND on that statement's "
    "unwind path), two guards are dropped in reverse order of creation; no Defer value is ever mem::forget-ed, leaked or wrapped in ManuallyDrop in "
    "the crate. NOT decided: the index arithmetic of slice/drop, size, to_bool, trim_suffix, Option::has, take_while_p (relations between runtime "
    "numbers and sequences).")


def suffix_guard(rep, F, cg):
    """`StringExt::trim_suffix removes exactly one trailing occurrence or nothing`"""
    import re
    from errguard import structural_facts
    from panics import skey_call
    R = 'SUFFIX-GUARD'
    rep.rule(R, 'each StringExt::trim_suffix either forwards to another StringExt::trim_suffix with the same operands, or shortens the string only on the TRUE edge of '
             '`self.ends_with(suffix)` and by a range that ends `suffix.len()` bytes before the end (..len(self) - len(suffix)); on the other edge it returns the '
             'string unchanged. A search (find / rfind / split) for the suffix anywhere else in the string cannot stand in for the test')
    impls = sorted(n for n in F.bodies if n.endswith(' as core::string::StringExt>::trim_suffix'))
    for fn in impls:
        B = cg.body(fn)
        calls = [(i, t, callee_of(t) or t.get('callee') or '') for i, t in B.calls()]
        fwd_ = [c for i, t, c in calls if c.endswith('StringExt::trim_suffix') or c.endswith('StringExt>::trim_suffix')]
        idx = [(i, t) for i, t, c in calls if c.endswith('std::ops::Index>::index') or c.endswith('std::ops::Index::index') or c.endswith('::get') or c.endswith('split_at') or c.endswith('truncate')]
        why = ''
        if fwd_ and not idx:
            ok = True
        else:
            ok = bool(idx)
            if not idx:
                why = 'no slicing site and no forwarding call found'
            for i, t in idx:
                fs = structural_facts(B, i)
                k = skey_call(B, t)
                g = any(re.match(r'^ends_with\(arg1,', d) and v is True for d, v in fs)
                r = re.search(r'RangeTo\(Sub\(len\(arg1\),len\(arg2\)\)(\.0)?\)', k) is not None
                if not (g and r):
                    ok = False
                    why = 'the slice %s is taken under %s' % (k, fs)
            searching = sorted({c for i, t, c in calls if c.startswith('<str>::') and c.split('::')[-1] in ('rfind', 'find', 'rsplit_once', 'split_once', 'rsplit', 'rmatch_indices', 'match_indices')})
            if searching:
                ok = False
                why = (why + '; ' if why else '') + 'locates the suffix with %s' % searching
        rep.add(R, 'suffixguard:%s' % fn, '%s cuts only a verified trailing occurrence' % fn, ok, '%s:%d' % (B.file, B.line),
                '' if ok else '%s: %s — an occurrence of the suffix that is not at the end is cut off together with everything after it' % (fn, why))
    rep.floor(R, 'StringExt::trim_suffix impls', len(impls), 2)


def run(rep, F, ctx):
    H = ctx['harness']
    cg = CallGraph(F)
    rep.rule('MUST-CALL', 'Defer::drop calls the stored closure on every entry->return path, at exactly one call site that is not on a cycle, and calls nothing else')
    name = '<core::defer::Defer<T> as std::ops::Drop>::drop'
    if name not in F.bodies:
        rep.add('MUST-CALL', 'defer:drop', 'Defer implements Drop', False, detail='anchor %s missing' % name)
    else:
        B = cg.body(name)

        def is_closure_call(t):
            c = t.get('callee') or ''
            if c not in ('std::ops::FnMut::call_mut', 'std::ops::Fn::call', 'std::ops::FnOnce::call_once'):
                return False
            return B.norm_operand(t['args'][0]) in ('&(*arg1).0', '(*arg1).0', '&arg1.0')
        mustcall.must_call(rep, 'MUST-CALL', 'defer:drop-calls-closure', B, is_closure_call, 'the stored closure (self.0)')
        sites = mustcall.call_sites(B, is_closure_call)
        ok = len(sites) == 1 and not mustcall.in_cycle(B, sites[0][0])
        rep.add('MUST-CALL', 'defer:exactly-once', 'Defer::drop invokes the closure at exactly one call site outside any loop', ok, '%s:%d' % (B.file, B.line),
                '' if ok else 'Defer::drop has %d closure call sites%s: the deferred action would run more than once' % (len(sites), ' (one in a loop)' if sites and any(mustcall.in_cycle(B, s[0]) for s in sites) else ''))
        others = [callee_of(t) for i, t in B.calls() if not is_closure_call(t)]
        rep.add('MUST-CALL', 'defer:drop-nothing-else', 'Defer::drop calls nothing but the closure', not others, '%s:%d' % (B.file, B.line),
                '' if not others else 'Defer::drop also calls %s' % others)
    rep.rule('DEFER-CTOR', 'defer(f) returns Defer(f): the return place is the aggregate of its parameter and the body makes no call')
    name = 'core::defer::defer'
    if name not in F.bodies:
        rep.add('DEFER-CTOR', 'defer:ctor', 'defer() exists', False, detail='anchor core::defer::defer missing')
    else:
        B = cg.body(name)
        ok = False
        for i, j, s in B.assigns():
            if s['place']['l'] == 0 and s['rv']['k'] == 'aggregate' and s['rv'].get('adt') == 'core::defer::Defer':
                ok = [B.norm_operand(o) for o in s['rv']['ops']] == ['arg1']
        ok = ok and not list(B.calls())
        rep.add('DEFER-CTOR', 'defer:ctor', 'defer(f) builds Defer(f) and nothing else', ok, '%s:%d' % (B.file, B.line),
                '' if ok else 'defer() does not return Defer(f) directly (the closure could be dropped or run early)')
    rep.rule('NO-LEAK', 'no value whose type contains core::defer::Defer is passed to mem::forget, ManuallyDrop::new or Box::leak anywhere in the crate')
    leaks = []
    for n in cg.names():
        B = cg.body(n)
        for i, t in B.calls():
            c = t.get('callee') or ''
            if c in ('std::mem::forget', '<std::mem::ManuallyDrop<T>>::new', '<std::boxed::Box<T, A>>::leak') and any('core::defer::Defer' in a for a in t['arg_tys']):
                leaks.append('%s at %s' % (n, B.loc(i)))
    rep.add('NO-LEAK', 'defer:no-leak', 'no Defer guard is leaked', not leaks, '', '' if not leaks else 'Defer guard leaked: %s' % leaks)

    rep.rule('DEFER-SCOPE', 'in the probe expansion of defer! the guard local is created by defer(closure), is dropped only after the statement that '
             'follows the macro (normal path) and on that statement\'s unwind path, and two guards are dropped in reverse order of creation')
    pb = H.bodies.get('probe_defer')
    if pb is None:
        rep.add('DEFER-SCOPE', 'defer:probe', 'probe_defer exists in the harness', False, detail='harness probe missing')
    else:
        B = Body(pb)
        guard = None
        for i, t in B.calls():
            if (t.get('callee') or '').endswith('core::defer::defer') or (t.get('callee') or '').endswith('core::defer'):
                guard = t['dest']['l']
        mb = [i for i, t in B.calls() if (t.get('callee') or '') == 'marker_b']
        drops = [i for i in B.normal if B.term(i)['k'] == 'drop' and B.term(i)['place']['l'] == guard]
        ok = guard is not None and len(mb) == 1 and len(drops) >= 1 and all(B.dominates(mb[0], d) for d in drops)
        # every path to return passes a drop of the guard
        w = mustcall.paths_avoiding(B, lambda t: t['k'] == 'drop' and t['place']['l'] == guard)
        ok = ok and w is None
        rep.add('DEFER-SCOPE', 'defer:scope-end', 'defer! keeps its guard alive until the end of the enclosing scope', ok, '%s:%d' % (B.file, B.line),
                '' if ok else 'the guard created by defer! is dropped before the following statement runs (bound to `_`?) or not on every path')
        # unwind path of the following statement drops the guard
        ok2 = False
        if mb:
            uw = B.term(mb[0]).get('unwind')
            seen = set()
            cur = uw
            while cur is not None and cur not in seen:
                seen.add(cur)
                t = B.term(cur)
                if t['k'] == 'drop' and t['place']['l'] == guard:
                    ok2 = True
                    break
                nx = t.get('target')
                cur = nx
        rep.add('DEFER-SCOPE', 'defer:unwind', 'the guard is dropped (closure runs) when the scope is left by unwinding', ok2, '%s:%d' % (B.file, B.line),
                '' if ok2 else 'no drop of the defer guard on the unwind path of the statement after defer!')
        # the closure given to defer is the macro body
        cl = H.bodies.get('probe_defer::{closure#0}')
        ok3 = cl is not None and any((t.get('callee') or '') == 'marker_a' for i, t in Body(cl).calls())
        rep.add('DEFER-SCOPE', 'defer:body', 'the deferred closure contains the macro\'s tokens', ok3, '', '' if ok3 else 'probe closure does not call marker_a')
    pb2 = H.bodies.get('probe_defer_two')
    if pb2 is not None:
        B = Body(pb2)
        gs = [t['dest']['l'] for i, t in B.calls() if 'defer' in (t.get('callee') or '')]
        ok = False
        if len(gs) == 2:
            d1 = [i for i in B.normal if B.term(i)['k'] == 'drop' and B.term(i)['place']['l'] == gs[0]]
            d2 = [i for i in B.normal if B.term(i)['k'] == 'drop' and B.term(i)['place']['l'] == gs[1]]
            ok = bool(d1) and bool(d2) and all(B.dominates(b2, b1) and b1 != b2 for b1 in d1 for b2 in d2)
        rep.add('DEFER-SCOPE', 'defer:reverse-order', 'two defer! guards are dropped in reverse order of creation', ok, '%s:%d' % (B.file, B.line),
                '' if ok else 'the second guard is not dropped before the first')
    rep.rule('EXACT-LEN', 'IteratorExt::slice and IteratorExt::drop never consult size_hint() / ExactSizeIterator::len(): index arithmetic relative to the end needs the '
             'exact length (count of a clone), and an upper bound is not the length for filtered or char iterators')
    for m in ('slice', 'drop'):
        fn = '<T as core::iter::IteratorExt>::%s' % m
        if fn not in F.bodies:
            rep.add('EXACT-LEN', 'exactlen:%s' % m, 'IteratorExt::%s exists' % m, False, detail='anchor missing')
            continue
        B = cg.body(fn)
        bad = [(t.get('callee') or '') for i, t in B.calls() if (t.get('callee') or '').split('::')[-1] in ('size_hint', 'len') and 'Iterator' in (t.get('callee') or '')]
        rep.add('EXACT-LEN', 'exactlen:%s' % m, 'IteratorExt::%s does not derive a length from size_hint' % m, not bad, '%s:%d' % (B.file, B.line),
                '' if not bad else 'IteratorExt::%s uses %s as the sequence length: wrong indices for iterators whose size hint is not exact (Filter, chars())' % (m, bad))
    suffix_guard(rep, F, cg)
    import panics as _pn
    _pn.no_panic_helpers(rep, F, cg, lambda n: n.startswith(('<T as core::iter::IteratorExt>::', '<str as core::string::', '<std::string::String as core::string::',
                                                            '<std::option::Option<T> as core::option::', '<std::iter::Peekable<I> as core::', '<core::peekable::')))
    import primtable as _pt
    _pt.prim_table(rep, F, cg, engine.load_table('primitives.json'), _pt.GROUPS['C19'])
    import siteguard as _sg
    _t = engine.load_table('site_guards.json')
    _sg.site_guard(rep, F, cg, _t, _t['_groups']['C19'])
    _th = engine.load_table('site_guards_harness.json')
    _sg.site_guard(rep, ctx['harness'], _sg.BodyOnly(ctx['harness']), _th, _th['_groups']['C19'], rule='SITE-GUARD-PROBES')
    return engine.finish(
        rep, 'other', EXPLANATION,
        assumptions=['Rust drop semantics: a named local is dropped exactly once when its scope ends, in reverse declaration order, also during unwinding'],
        trusted_base=['rustc nightly MIR (drop elaboration)', 'extractor/', 'harness/macros probe functions (analysed, never run)', 'rules/mustcall.py'],
        checker_cmd='./check C19', seed=ctx['seed'])
