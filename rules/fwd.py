"""FWD / INHERIT: transparent forwarding of wrapper methods (C13; PathExt part serves C05/C15).

FWD: the body of wrapper method m is a switch on self's discriminant that is exhaustive; in the arm of
variant V(x) there is exactly one call whose resolved callee is <payload(V) as T>::m (or the wrapper's
own `upcast` applied to that call's result), the receiver derives from x, the remaining arguments are
the method's own parameters in order, unmodified, and the result reaches the return place unmodified.
No other call, no other assignment with effect."""
import re
from mir import Body, callee_of, op_local, place_key

VFS_TRAIT = 'sys::fs::vfs::VirtualFileSystem'
ENTRY_TRAIT = 'sys::fs::entry::Entry'
PATHEXT_TRAIT = 'sys::fs::path::PathExt'


def _linear_chain(B, start):
    """follow goto/call/drop successors from start until return; returns (blocks, problem)"""
    out = []
    cur = start
    seen = set()
    while True:
        if cur in seen:
            return out, 'loop in forwarding arm'
        seen.add(cur)
        out.append(cur)
        t = B.term(cur)
        k = t['k']
        if k == 'return':
            return out, None
        if k in ('goto', 'call', 'drop'):
            nxt = t.get('target')
            if nxt is None:
                return out, 'diverging call in forwarding arm'
            cur = nxt
            continue
        if k == 'switch':
            # drop-flag switches (on a bool local assigned only constants) are transparent; take both and
            # require both to be linear to the same return: treat as problem unless both sides merge
            return out, 'branch (switch) inside forwarding arm at %s' % B.loc(cur)
        return out, 'unexpected terminator %s in forwarding arm' % k


def _effect_stmts(B, blocks):
    """assignments in the chain that are not plain moves/copies/refs/discriminant reads/bool flags"""
    bad = []
    for i in blocks:
        for s in B.blocks[i]['stmts']:
            if s['k'] != 'assign':
                continue
            rv = s['rv']
            k = rv['k']
            if k in ('use', 'ref', 'copyforderef', 'discr'):
                continue
            if k == 'cast' and ('Unsize' in rv['cast'] or 'Subtype' in rv['cast']):
                continue
            bad.append((i, place_key(s['place']), k))
    return bad


class Sym:
    """symbolic evaluation along a linear block chain: local -> term string.
    `&(*X)` (a reborrow) is identified with X."""

    def __init__(self, B, prefix_blocks=()):
        self.B = B
        self.env = {}
        for l in range(1, B.nargs + 1):
            self.env[l] = 'arg%d' % l

    def local(self, l):
        return self.env.get(l, 'local_%d' % l)

    def place(self, p):
        s = self.local(p['l'])
        for e in p['p']:
            k = e['k']
            if k == 'deref':
                s = '(*%s)' % s
            elif k == 'field':
                s = '%s.%s' % (s, e.get('name', e['i']))
            elif k == 'downcast':
                s = '(%s as %s)' % (s, e['variant'])
            else:
                s = '%s{%s}' % (s, k)
        return s

    def op(self, o):
        if o['k'] in ('copy', 'move'):
            return self.place(o['place'])
        return self.B.norm_operand(o)

    def rv(self, rv, where):
        k = rv['k']
        if k == 'use':
            return self.op(rv['op'])
        if k == 'copyforderef':
            return self.place(rv['place'])
        if k == 'ref':
            inner = self.place(rv['place'])
            if inner.startswith('(*') and inner.endswith(')') and _balanced(inner[2:-1]):
                return inner[2:-1]          # &(*X) == X
            return '&' + inner
        if k == 'cast' and ('Unsize' in rv['cast'] or 'Subtype' in rv['cast']):
            return self.op(rv['op'])
        if k == 'discr':
            return 'discr(%s)' % self.place(rv['place'])
        return '%s@%s' % (k, where)

    def run_block(self, i, on_call=None):
        B = self.B
        for j, s in enumerate(B.blocks[i]['stmts']):
            if s['k'] == 'assign':
                v = self.rv(s['rv'], 'bb%d.%d' % (i, j))
                if not s['place']['p']:
                    self.env[s['place']['l']] = v
                else:
                    self.env[s['place']['l']] = 'partial@bb%d.%d' % (i, j)
        t = B.term(i)
        if t['k'] == 'call':
            args = [self.op(a) for a in t['args']]
            if on_call:
                on_call(i, t, args)
            if not t['dest']['p']:
                self.env[t['dest']['l']] = 'call@bb%d' % i
            else:
                self.env[t['dest']['l']] = 'partial@bb%d' % i


def _balanced(s):
    d = 0
    for c in s:
        if c == '(':
            d += 1
        elif c == ')':
            d -= 1
            if d < 0:
                return False
    return d == 0


def check_arm(B, start, expected_callee, recv_expect, param_locals, allow_post=(), prefix=()):
    """returns (ok, detail, sample) for one forwarding arm starting at block `start`.
    recv_expect: regex the symbolic receiver must match (or None when there is no receiver)
    param_locals: parameter locals that must be forwarded, in order, after the receiver"""
    chain, prob = _linear_chain(B, start)
    if prob:
        return False, prob, None
    bad = _effect_stmts(B, chain)
    if bad:
        return False, 'statement with effect in forwarding arm: %s = <%s> at %s' % (bad[0][1], bad[0][2], B.loc(bad[0][0])), None
    sym = Sym(B)
    for i in prefix:
        sym.run_block(i)
    calls = []
    for i in chain:
        sym.run_block(i, on_call=lambda i, t, args: calls.append((i, t, args)))
    if not calls:
        return False, 'no call in forwarding arm (expected %s)' % (expected_callee,), None
    i0, t0, normed = calls[0]
    got = callee_of(t0)
    if isinstance(expected_callee, tuple):
        # (impl path, trait default path, self type): the backend may inherit the trait default
        imp, dflt, selfty = expected_callee
        if got == dflt and t0.get('self_ty') == selfty:
            expected_callee = dflt
        else:
            expected_callee = imp
    if got != expected_callee:
        return False, 'arm calls %s, expected %s (at %s)' % (got, expected_callee, B.loc(i0)), None
    n_expected = (1 if recv_expect is not None else 0) + len(param_locals)
    if len(normed) != n_expected:
        return False, 'call passes %d arguments, expected %d' % (len(normed), n_expected), None
    idx = 0
    if recv_expect is not None:
        if not re.fullmatch(recv_expect, normed[0]):
            return False, 'receiver is %s, expected the wrapped value (%s) at %s' % (normed[0], recv_expect, B.loc(i0)), None
        idx = 1
    for j, pl in enumerate(param_locals):
        want = 'arg%d' % pl
        got_a = normed[idx + j]
        if got_a != want:
            return False, 'argument %d of the forwarded call is %s, expected parameter %s (%s) unmodified, at %s' % (
                idx + j, got_a, want, B.local_name(pl), B.loc(i0)), None
    cur_src = 'call@bb%d' % i0
    for (i, t, args) in calls[1:]:
        c = callee_of(t)
        if c not in allow_post:
            return False, 'extra call %s in forwarding arm at %s' % (c, B.loc(i)), None
        if args != [cur_src]:
            return False, 'post call %s is not applied to the forwarded result at %s' % (c, B.loc(i)), None
        cur_src = 'call@bb%d' % i
    if sym.local(0) != cur_src:
        return False, 'the return place holds %s, not the forwarded result %s' % (sym.local(0), cur_src), None
    sample = '%s(%s) -> return' % (got, ', '.join(normed))
    return True, '', sample


def enum_wrapper(rep, F, wrapper_ty, trait, payloads, rulename='FWD'):
    """payloads: variant name -> payload type string"""
    tr = F.traits[trait]
    n_arms = 0
    for m in tr['methods']:
        mname = m['name']
        bname = '<%s as %s>::%s' % (wrapper_ty, trait, mname)
        b = F.bodies.get(bname)
        if b is None:
            # INHERIT: wrapper inherits the default; no backend may override it
            if not m['has_default']:
                rep.add('INHERIT', '%s::%s' % (wrapper_ty, mname), 'wrapper implements required method', False,
                        detail='no body for %s' % bname)
                continue
            for v, pty in payloads.items():
                over = '<%s as %s>::%s' % (pty, trait, mname)
                ok = over not in F.bodies
                rep.add('INHERIT', 'inherit:%s::%s:%s' % (wrapper_ty.split('::')[-1], mname, v),
                        '%s inherits the default %s::%s, so backend %s must not override it' % (wrapper_ty, trait, mname, pty),
                        ok, where='%s' % (F.bodies[over]['span']['file'] + ':%d' % F.bodies[over]['span']['line'] if not ok else ''),
                        detail='' if ok else '%s overrides %s but the wrapper %s uses the trait default: results differ through the wrapper' % (pty, mname, wrapper_ty))
            continue
        B = Body(b)
        key_base = '%s::%s' % (wrapper_ty.split('::')[-1], mname)
        # entry block: discriminant of self, switch
        t0 = B.term(0)
        ok_entry = False
        discr_of = None
        if t0['k'] == 'switch':
            dl = op_local(t0['discr'])
            for s in B.blocks[0]['stmts']:
                if s['k'] == 'assign' and s['place']['l'] == dl and s['rv']['k'] == 'discr':
                    discr_of = B.norm_place(s['rv']['place'])
            ok_entry = discr_of in ('arg1', '(*arg1)')
        if not ok_entry:
            rep.add(rulename, key_base + ':entry', 'wrapper method body is a match on self', False,
                    where='%s:%d' % (B.file, B.line), detail='body of %s does not start with a switch on self\'s discriminant' % bname)
            continue
        adt = F.adts[wrapper_ty]
        variants = [v['name'] for v in adt['variants']]
        targets = {int(v): bb for v, bb in t0['targets']}
        other = t0['otherwise']
        nparams = B.nargs
        for vi, vname in enumerate(variants):
            key = '%s:%s' % (key_base, vname)
            if vname not in payloads:
                rep.add(rulename, key, 'variant has a known payload type', False, where='%s:%d' % (B.file, B.line),
                        detail='enum %s has a variant %s the checker has no payload for' % (wrapper_ty, vname))
                continue
            start = targets.get(vi)
            if start is None:
                start = other
                if B.term(start)['k'] == 'unreachable':
                    rep.add(rulename, key, 'match on self is exhaustive', False, where='%s:%d' % (B.file, B.line),
                            detail='no arm for variant %s in %s' % (vname, bname))
                    continue
            pty = payloads[vname]
            expected = '<%s as %s>::%s' % (pty, trait, mname)
            if expected not in F.bodies and m['has_default']:
                expected = (expected, '%s::%s' % (trait, mname), pty)
            by_ref = B.local_ty(1).startswith('&')
            if by_ref:
                recv = r'&\(\(\*arg1\) as %s\)\.0' % vname
            else:
                recv = r'\(arg1 as %s\)\.0' % vname
            wrapper_upcast = '<%s as %s>::upcast' % (wrapper_ty, trait)
            ok, detail, sample = check_arm(B, start, expected, recv, list(range(2, nparams + 1)), allow_post=(wrapper_upcast,))
            n_arms += 1
            o = rep.add(rulename, key, '%s arm %s -> %s(x, <params in order>), result returned unmodified' % (bname, vname, expected if isinstance(expected, str) else expected[1] + ' on ' + expected[2]),
                        ok, where=B.loc(start), detail=detail)
            if sample:
                o.witness = [sample]
    return n_arms


def static_forwarders(rep, F, impl_self, trait, target_fmt, drop_self, rulename='FWD', skip=()):
    """impl methods that forward to a same-named free/inherent function.
    target_fmt: format string with {name}; drop_self: whether the receiver is dropped from the arguments"""
    tr = F.traits[trait]
    n = 0
    for m in tr['methods']:
        mname = m['name']
        if mname in skip:
            continue
        bname = '<%s as %s>::%s' % (impl_self, trait, mname)
        b = F.bodies.get(bname)
        if b is None:
            if not m['has_default']:
                rep.add(rulename, '%s::%s' % (impl_self, mname), 'impl provides required method', False, detail='no body ' + bname)
            continue
        B = Body(b)
        expected = target_fmt.format(name=mname)
        params = list(range(2, B.nargs + 1)) if drop_self else list(range(1, B.nargs + 1))
        ok, detail, sample = check_arm(B, 0, expected, None, params)
        n += 1
        key = '%s::%s' % (impl_self.split('::')[-1], mname)
        o = rep.add(rulename, key, '%s forwards to %s with its parameters in order, result returned unmodified' % (bname, expected),
                    ok, where='%s:%d' % (B.file, B.line), detail=detail)
        if sample:
            o.witness = [sample]
    return n


def upcast_builds_own_variant(rep, F, impl_self, trait, wrapper_ty, variant):
    bname = '<%s as %s>::upcast' % (impl_self, trait)
    b = F.bodies.get(bname)
    key = 'upcast:%s' % impl_self.split('::')[-1]
    if b is None:
        rep.add('FWD', key, 'upcast exists', False, detail='no body ' + bname)
        return
    B = Body(b)
    found = None
    others = []
    for i, j, s in B.assigns():
        rv = s['rv']
        if s['place']['l'] == 0 and not s['place']['p']:
            if rv['k'] == 'aggregate' and rv.get('adt') == wrapper_ty:
                found = (rv['variant'], [B.norm_operand(o) for o in rv['ops']])
            else:
                others.append(rv['k'])
    calls = list(B.calls())
    ok = found is not None and found[0] == variant and found[1] == ['arg1'] and not calls and not others
    rep.add('FWD', key, '%s builds %s::%s(self) and nothing else' % (bname, wrapper_ty, variant), ok,
            where='%s:%d' % (B.file, B.line),
            detail='' if ok else 'upcast of %s builds %s with %d call(s)' % (impl_self, found, len(calls)))
