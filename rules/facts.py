"""Loading and pretty-printing of the fact files produced by extractor/ (rivia-facts)."""
import json, os, re, sys

class Facts:
    def __init__(self, path):
        with open(path) as f:
            text = f.read()
        import renames
        m = re.search(r'"crate"\s*:\s*"([^"]*)"', text[:400])
        text, self.renames = renames.normalise(text, m.group(1) if m else '')
        self.d = json.loads(text)
        self.crate = self.d['crate']
        self.bodies = {b['name']: b for b in self.d['bodies']}
        self.adts = {a['path']: a for a in self.d['adts']}
        self.traits = {t['path']: t for t in self.d['traits']}
        self.impls = self.d['impls']
        for b in self.d['bodies']:
            b['_file'] = b['span']['file']
            b['_line'] = b['span']['line']

    def body(self, name):
        return self.bodies[name]

    def find(self, pred):
        return [b for b in self.d['bodies'] if pred(b)]


def pplace(p):
    s = '_%d' % p['l']
    for e in p['p']:
        k = e['k']
        if k == 'deref':
            s = '(*%s)' % s
        elif k == 'field':
            s = '%s.%s' % (s, e.get('name', e['i']))
        elif k == 'downcast':
            s = '(%s as %s)' % (s, e['variant'])
        elif k == 'index':
            s = '%s[_%d]' % (s, e['local'])
        else:
            s = '%s{%s}' % (s, k)
    return s


def pop(o):
    k = o['k']
    if k in ('copy', 'move'):
        return ('move ' if k == 'move' else '') + pplace(o['place'])
    if k == 'const':
        if 'fn' in o:
            return 'fn:' + o['fn']
        if 'str' in o:
            return json.dumps(o['str'])
        if 'bool' in o:
            return str(o['bool']).lower()
        if 'sint' in o:
            return o['sint'] + '_' + o['ty']
        if 'int' in o:
            return o['int'] + '_' + o['ty']
        if 'promoted' in o:
            return 'promoted[%d]' % o['promoted']
        if 'uneval' in o:
            return 'const:' + o['uneval']
        return 'const<%s>' % o['ty']
    return k


def prv(rv):
    k = rv['k']
    if k == 'use':
        return pop(rv['op'])
    if k == 'ref':
        return ('&mut ' if rv['mut'] else '&') + pplace(rv['place'])
    if k == 'cast':
        return '%s as %s (%s)' % (pop(rv['op']), rv['to'], rv['cast'])
    if k == 'binop':
        return '%s(%s, %s)' % (rv['op'], pop(rv['l']), pop(rv['r']))
    if k == 'unop':
        return '%s(%s)' % (rv['op'], pop(rv['a']))
    if k == 'discr':
        return 'discriminant(%s)' % pplace(rv['place'])
    if k == 'aggregate':
        ops = [pop(o) for o in rv['ops']]
        if rv['agg'] == 'adt':
            return '%s::%s{%s}' % (rv['adt'], rv['variant'], ', '.join('%s: %s' % (f, o) for f, o in zip(rv['fields'], ops)))
        if rv['agg'] == 'closure':
            return 'closure %s [%s]' % (rv['closure'], ', '.join(ops))
        return '%s(%s)' % (rv['agg'], ', '.join(ops))
    if k in ('copyforderef', 'rawptr'):
        return '%s %s' % (k, pplace(rv['place']))
    return k


def pterm(t):
    k = t['k']
    if k == 'call':
        callee = t.get('resolved') or t.get('callee') or pop(t['func'])
        if t.get('resolved') and t.get('callee') and t['resolved'] != t['callee']:
            callee = '%s [decl %s]' % (t['resolved'], t['callee'])
        if t.get('resolved_self'):
            callee += ' <self=%s>' % t['resolved_self']
        return '%s = %s(%s) -> bb%s unwind %s' % (pplace(t['dest']), callee, ', '.join(pop(a) for a in t['args']), t['target'], t['unwind'])
    if k == 'drop':
        return 'drop(%s : %s) -> bb%s unwind %s' % (pplace(t['place']), t['ty'], t['target'], t['unwind'])
    if k == 'switch':
        return 'switch(%s) %s else bb%s' % (pop(t['discr']), ', '.join('%s:bb%d' % (v, b) for v, b in t['targets']), t['otherwise'])
    if k == 'assert':
        return 'assert(%s == %s, %s) -> bb%s' % (pop(t['cond']), t['expected'], t['msg'], t['target'])
    if k == 'goto':
        return 'goto bb%s' % t['target']
    return k


def pbody(b, out=sys.stdout):
    w = out.write
    w('fn %s  [%s:%d] kind=%s\n' % (b['name'], b['span']['file'], b['span']['line'], b['kind']))
    for k in ('impl_self', 'impl_trait', 'trait_item', 'root', 'vis', 'inputs', 'output', 'upvars'):
        if k in b:
            w('   %s: %s\n' % (k, b[k] if not isinstance(b[k], list) else [x if isinstance(x, str) else x['ty'] for x in b[k]]))
    for i, l in enumerate(b['locals']):
        w('   let _%d: %s%s\n' % (i, l['ty'], ('  // ' + l['name']) if 'name' in l else ''))
    for i, blk in enumerate(b['blocks']):
        w(' bb%d%s:\n' % (i, ' (cleanup)' if blk['cleanup'] else ''))
        for s in blk['stmts']:
            if s['k'] == 'assign':
                w('    %s = %s   // L%d\n' % (pplace(s['place']), prv(s['rv']), s['span']['line']))
            elif s['k'] == 'setdiscr':
                w('    discriminant(%s) = %d\n' % (pplace(s['place']), s['vi']))
        sp = blk['span']
        ex = (' expn=' + '>'.join(sp['expn'])) if 'expn' in sp else ''
        w('    %s   // L%d%s\n' % (pterm(blk['term']), sp['line'], ex))


if __name__ == '__main__':
    f = Facts(sys.argv[1])
    pat = sys.argv[2]
    for b in f.d['bodies']:
        if pat in b['name']:
            pbody(b)
            print()
