// Demonstration of the known finding C03 linkkind:_add (fails on the current tree; run as an integration test in a scratch copy of /repo)
use rivia::prelude::*;

#[test]
fn a_symlink_never_gets_byte_content() {
    let vfs = Vfs::memfs();
    vfs.write_all("/target", "t").unwrap();
    vfs.symlink("/link", "/target").unwrap();
    vfs.write_all("/src", "s").unwrap();
    let _ = vfs.copy("/src", "/link");
    let dump = match &vfs {
        Vfs::Memfs(m) => format!("{}", m),
        _ => unreachable!(),
    };
    let data: Vec<&str> = dump.split("[files]:").nth(1).unwrap().lines().map(|x| x.trim()).filter(|x| !x.is_empty()).collect();
    // exactly the regular non-link files have byte content
    assert!(vfs.is_symlink("/link"));
    assert!(!data.contains(&"/link"), "the symlink /link has a data record: {:?}", data);
}
