// Demonstration of the known finding C03 parentreal:_add (fails on the current tree; run as an integration test in a scratch copy of /repo:
//   cp known_defects/child_under_link_demo.rs <copy>/tests/ && cargo test --offline --test child_under_link_demo)
use rivia::prelude::*;

#[test]
fn child_created_under_a_link_to_a_directory_is_reachable_from_the_root() {
    let vfs = Vfs::memfs();
    vfs.mkdir_p("/dir").unwrap();
    vfs.symlink("/link", "/dir").unwrap();
    if vfs.mkfile("/link/child").is_ok() {
        let all = vfs.all_paths("/").unwrap();
        // every existing path is reached by a recursive listing from the root, through a parent that is a real directory
        assert!(
            all.contains(&PathBuf::from("/link/child")) || all.contains(&PathBuf::from("/dir/child")),
            "the created entry exists ({}) but is listed nowhere: {:?}",
            vfs.exists("/link/child"),
            all
        );
    }
}
