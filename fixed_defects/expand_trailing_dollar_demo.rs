// Demonstration for the repaired defect C17 emptyname:expand (fails on e3a59f3, passes from the repair on; run as tests/expand_trailing_dollar_demo.rs in a scratch copy of /repo).
// "Expansion fails rather than guessing for ... an empty variable name": a `$` that ends a component names no variable, yet expand
// returns Ok and silently drops the `$` — the literal-text scanner (std take_while over the shared stream) swallows the delimiter, so
// the variable-reading block, which holds the empty-name check, is skipped when nothing follows it.
use rivia::prelude::*;

#[test]
fn dollar_at_the_end_of_a_component_is_an_empty_variable_name() {
    // `${}` and `$$HOME` are rejected ...
    assert!(sys::expand("/foo/${}").is_err());
    assert!(sys::expand("/foo/$$HOME").is_err());
    // ... so the same empty name at the end of a component has to be rejected as well
    assert!(sys::expand("/foo/bar$").is_err(), "got {:?}", sys::expand("/foo/bar$"));
    assert!(sys::expand("/foo/$/bar").is_err(), "got {:?}", sys::expand("/foo/$/bar"));
    assert!(sys::expand("$").is_err(), "got {:?}", sys::expand("$"));
}
