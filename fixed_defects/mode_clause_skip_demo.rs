// Demonstration for the repaired defect C11 clausecomplete:mode (fails on bdbf98f, passes from e3a59f3; run as tests/mode_clause_skip_demo.rs in a scratch copy of /repo).
// The documented grammar is a comma-repeatable list of clauses `[dfa]:[ugoa][-+=][rwx]`; a clause whose target kind does not match the
// entry must be skipped, the following clauses still apply. sys::mode returns at the first non-matching clause instead.
use rivia::prelude::*;

#[test]
fn later_clause_applies_after_a_non_matching_one_memfs() {
    let vfs = Vfs::memfs();
    let dir = vfs.root().mash("dir");
    assert_vfs_mkdir_m!(vfs, &dir, 0o40700);

    // single matching clause: works
    vfs.chmod_b(&dir).unwrap().sym("d:a+x").exec().unwrap();
    assert_eq!(vfs.mode(&dir).unwrap(), 0o40711);

    // the same clause behind a clause for files: must give the same result
    let dir2 = vfs.root().mash("dir2");
    assert_vfs_mkdir_m!(vfs, &dir2, 0o40700);
    vfs.chmod_b(&dir2).unwrap().sym("f:a+r,d:a+x").exec().unwrap();
    assert_eq!(vfs.mode(&dir2).unwrap(), 0o40711);
}

#[test]
fn later_clause_applies_after_a_non_matching_one_file() {
    let vfs = Vfs::memfs();
    let file = vfs.root().mash("file");
    assert_vfs_mkfile!(vfs, &file);
    vfs.chmod(&file, 0o644).unwrap();
    vfs.chmod_b(&file).unwrap().sym("d:u+x,f:u-w").exec().unwrap();
    assert_eq!(vfs.mode(&file).unwrap(), 0o100444);
}
