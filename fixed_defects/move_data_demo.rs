use rivia::prelude::*;

// the [files] section of Memfs' Display dump lists the paths that have byte content
fn data_paths(vfs: &Vfs) -> Vec<String> {
    let dump = match vfs {
        Vfs::Memfs(m) => format!("{}", m),
        _ => unreachable!(),
    };
    dump.split("[files]:").nth(1).unwrap().lines().map(|x| x.trim().to_string()).filter(|x| !x.is_empty()).collect()
}

#[test]
fn link_moved_onto_a_file_keeps_no_data() {
    let vfs = Vfs::memfs();
    vfs.write_all("/target", "t").unwrap();
    vfs.write_all("/f", "data").unwrap();
    vfs.symlink("/link", "/target").unwrap();
    vfs.move_p("/link", "/f").unwrap();
    assert!(vfs.is_symlink("/f"));
    // exactly the regular non-link files have byte content
    assert_eq!(data_paths(&vfs), vec!["/target".to_string()]);
}

#[test]
fn file_moved_onto_itself_keeps_its_data() {
    let vfs = Vfs::memfs();
    vfs.write_all("/f", "data").unwrap();
    vfs.move_p("/f", "/f").unwrap();
    assert_eq!(vfs.read_all("/f").unwrap(), "data");
    vfs.write_all("/g", "other").unwrap();
    vfs.move_p("/f", "/g").unwrap();
    assert_eq!(vfs.read_all("/g").unwrap(), "data");
    assert_eq!(data_paths(&vfs), vec!["/g".to_string()]);
}
