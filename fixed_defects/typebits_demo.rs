use rivia::prelude::*;
#[test] fn chmod_with_stray_high_bits_keeps_type_bits() {
    let vfs = Memfs::new();
    vfs.write_all("/f", "x").unwrap();
    vfs.chmod("/f", 0o40755).unwrap();
    assert_eq!(vfs.mode("/f").unwrap() & 0o170000, 0o100000, "file type bits changed: {:o}", vfs.mode("/f").unwrap());
    vfs.mkdir_p("/d").unwrap();
    vfs.chmod("/d", 0o100700).unwrap();
    assert_eq!(vfs.mode("/d").unwrap() & 0o170000, 0o40000, "dir type bits changed: {:o}", vfs.mode("/d").unwrap());
}
