use rivia::prelude::*;
use std::io::{Read, Seek, SeekFrom};

fn caught<F: FnOnce() + std::panic::UnwindSafe>(f: F) -> bool { std::panic::catch_unwind(f).is_err() }

#[test] fn d01_trim_prefix_multibyte() { assert_eq!(sys::trim_prefix("/é/a", "/é"), PathBuf::from("/a")); }
#[test] fn d02_trim_suffix_multibyte() { assert_eq!(sys::trim_suffix("é.txt", ".txt"), PathBuf::from("é")); assert_eq!(sys::trim_ext("é.txt").unwrap(), PathBuf::from("é")); }
#[test] fn d03_read_past_end() {
    let vfs = Memfs::new(); vfs.write_all("/f", "hello").unwrap();
    let mut h = vfs.read("/f").unwrap(); h.seek(SeekFrom::Start(10)).unwrap();
    let mut b = [0u8; 4]; assert_eq!(h.read(&mut b).unwrap(), 0);
}
#[test] fn d04_seek_negative() {
    let vfs = Memfs::new(); vfs.write_all("/f", "hello").unwrap();
    let mut h = vfs.read("/f").unwrap();
    assert!(h.seek(SeekFrom::Current(-1)).is_err());
    assert_eq!(h.seek(SeekFrom::Current(0)).unwrap(), 0);
    assert!(h.seek(SeekFrom::End(-10)).is_err());
}
#[test] fn d05_mash_double_slash() { assert_eq!(sys::mash("/a", "//b"), PathBuf::from("/a/b")); }
#[test] fn d14_readlink_abs_nonlink() {
    let (vfs, tmp) = assert_vfs_setup!(Vfs::stdfs(), "d14");
    let f = tmp.mash("f"); vfs.write_all(&f, "x").unwrap();
    assert!(vfs.readlink_abs(&f).is_err());
    vfs.remove_all(&tmp).unwrap();
}
#[test] fn d08_stdfs_is_dir_tilde() {
    let vfs = Vfs::stdfs();
    let home = vfs.abs("~").unwrap();
    assert_eq!(vfs.is_dir("~"), vfs.is_dir(&home));
}
#[test] fn d07_contents_first_files() {
    let vfs = Memfs::new(); vfs.mkdir_p("/r/d").unwrap(); vfs.write_all("/r/d/f", "x").unwrap();
    let got: Vec<PathBuf> = vfs.entries("/r").unwrap().contents_first().files().into_iter().map(|e| e.unwrap().path_buf()).collect();
    assert_eq!(got, vec![PathBuf::from("/r/d/f")]);
}
#[test] fn d09_move_p_failed_changes_nothing() {
    let vfs = Memfs::new(); vfs.write_all("/a", "x").unwrap();
    assert!(vfs.move_p("/a", "/x/y").is_err());
    assert!(vfs.exists("/a")); assert!(!vfs.exists("/x/y"));
}
#[test] fn d13_memfs_is_file_link() {
    let vfs = Memfs::new(); vfs.write_all("/f", "x").unwrap(); vfs.symlink("/l", "/f").unwrap();
    assert!(!vfs.is_file("/l")); assert!(vfs.is_symlink_file("/l"));
}
#[test] fn d01b_copy_multibyte_no_poison() {
    let vfs = Memfs::new();
    vfs.mkdir_p("/é").unwrap(); vfs.write_all("/é/a", "x").unwrap(); vfs.mkdir_p("/dst").unwrap();
    let r = std::panic::catch_unwind(std::panic::AssertUnwindSafe(|| { let _ = vfs.copy("/é/a", "/dst"); }));
    assert!(r.is_ok(), "copy panicked");
    assert!(vfs.exists("/dst/a"));
}
