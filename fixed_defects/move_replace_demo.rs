use rivia::prelude::*;

#[test]
fn move_never_orphans_the_children_of_a_replaced_directory() {
    let vfs = Vfs::memfs();
    vfs.mkdir_p("/a").unwrap();
    vfs.write_all("/a/new", "n").unwrap();
    vfs.mkdir_p("/b/a").unwrap();
    vfs.write_all("/b/a/old", "o").unwrap();
    let before = vfs.all_paths("/").unwrap();

    // like rename(2) onto a non-empty directory the move is refused, and a failed move changes nothing
    assert!(vfs.move_p("/a", "/b").is_err());
    assert_eq!(vfs.all_paths("/").unwrap(), before);

    // every existing path is reached by the recursive listing from the root
    for p in ["/a", "/a/new", "/b", "/b/a", "/b/a/old"] {
        assert!(vfs.exists(p), "{} exists", p);
        assert!(vfs.all_paths("/").unwrap().contains(&PathBuf::from(p)), "{} is listed", p);
    }

    // an empty directory of the same name is still replaced
    vfs.remove("/b/a/old").unwrap();
    vfs.move_p("/a", "/b").unwrap();
    assert_eq!(vfs.all_paths("/").unwrap(), vec![PathBuf::from("/b"), PathBuf::from("/b/a"), PathBuf::from("/b/a/new")]);
}
