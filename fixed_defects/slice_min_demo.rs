use rivia::prelude::*;

#[test]
fn slice_with_the_most_negative_right_index_does_not_panic() {
    // a right bound far below -len denotes an empty range: nothing is yielded, nothing panics
    let v: Vec<i32> = vec![0, 1, 2].into_iter().slice(0, isize::MIN).collect();
    assert_eq!(v, Vec::<i32>::new());
    let v: Vec<i32> = vec![0, 1, 2].into_iter().slice(0, isize::MIN + 1).collect();
    assert_eq!(v, Vec::<i32>::new());
    // ordinary negative bounds are unchanged
    let v: Vec<i32> = vec![0, 1, 2].into_iter().slice(0, -2).collect();
    assert_eq!(v, vec![0, 1]);
    let v: Vec<i32> = vec![0, 1, 2].into_iter().slice(-2, -1).collect();
    assert_eq!(v, vec![1, 2]);
}
