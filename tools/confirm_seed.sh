#!/bin/bash
# usage: tools/confirm_seed.sh <seed-worktree> <name>   — independently re-verifies a seeded breaking change in a scratch copy and stores it under seeded/<name>/
set -u
W="$1"; NAME="$2"
OUT=/verif/seeded/$NAME
S=/tmp/rivia-confirm
mkdir -p "$OUT" "$S"
git -C "$W" diff -- src > "$OUT/patch.diff"
cp "$W/tests/seeded_demo.rs" "$OUT/seeded_demo.rs"
rsync -a --delete --exclude target --exclude .git /repo/ "$S/"   # keep $S/target for speed
mkdir -p "$S/tests"; cp "$OUT/seeded_demo.rs" "$S/tests/seeded_demo.rs"
cd "$S"
echo "-- unchanged source: demo"
base_demo=$(cargo test --offline --test seeded_demo 2>&1 | grep "test result" | head -1)
echo "   $base_demo"
patch -p1 -s < "$OUT/patch.diff" || { echo "PATCH DOES NOT APPLY"; exit 2; }
echo "-- with change: build + lib tests + demo"
cargo build --offline 2>&1 | grep -E "^error" | head -3
lib=$(cargo test --offline --lib 2>&1 | grep "test result" | head -1)
fails=$(cargo test --offline --lib 2>&1 | grep "FAILED$" | grep "^test " | tr '\n' ' ')
echo "   lib: $lib  [$fails]"
seed_demo=$(cargo test --offline --test seeded_demo 2>&1 | grep "test result" | head -1)
echo "   demo: $seed_demo"
echo "{\"lib_with_change\": \"$lib\", \"lib_failing\": \"$fails\", \"demo_unchanged\": \"$base_demo\", \"demo_with_change\": \"$seed_demo\"}" > "$OUT/confirm.json"
