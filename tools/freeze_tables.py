#!/usr/bin/env python3
"""tools/freeze_tables.py — regenerates the frozen-instance tables (site_guards.json sites, err_guards.json, stdfs_io.json) from /repo's current tree.
Run only on a tree whose behaviour was confirmed; review the diff of tables/ before committing."""
import json, os, sys
sys.path.insert(0, os.path.join(os.path.dirname(os.path.abspath(__file__)), '..', 'rules'))
import extract, facts, callgraph, siteguard, errguard, primtable, engine, roles, panics
paths, key, _ = extract.facts_for_repo(extract.REPO)
F = facts.Facts(paths['rivia'])
panics.ALIASES.update(roles.aliases(F))
cg = callgraph.CallGraph(F)
p = os.path.join(engine.VERIF if hasattr(engine, 'VERIF') else os.path.join(os.path.dirname(os.path.abspath(__file__)), '..'), 'tables', 'site_guards.json')
t = json.load(open(p))
groups = {k: v for k, v in t['_groups'].items() if k not in siteguard.GROUP_PRED}      # hand-listed groups (C05, C12) are kept
for pid in siteguard.GROUP_PRED:
    groups[pid] = siteguard.group_functions(F, pid, cg)
fns = sorted({f for g in groups.values() for f in g})
new = {'_groups': groups}
new.update(siteguard.collect(F, cg, fns))
json.dump(new, open(p, 'w'), indent=1, sort_keys=True)
print('%d sites frozen' % (len(new) - 1))

T = os.path.dirname(p)
eg = errguard.collect_err_guards(F, cg)
json.dump(eg, open(os.path.join(T, 'err_guards.json'), 'w'), indent=1, sort_keys=True)
print('%d error exits frozen' % len(eg))
io = errguard.collect_io(F, cg, 'sys::fs::stdfs::Stdfs')
io.update(errguard.collect_io(F, cg, 'sys::fs::stdfs::entry::StdfsEntry'))
json.dump(io, open(os.path.join(T, 'stdfs_io.json'), 'w'), indent=1, sort_keys=True)
print('%d Stdfs functions with OS calls frozen' % len(io))
pt = primtable.collect(F, cg, primtable.select_all)
json.dump(pt, open(os.path.join(T, 'primitives.json'), 'w'), indent=1, sort_keys=True)
print('%d helpers with their primitives frozen' % len(pt))

# ---- probe expansions of the assert_vfs_* / defer! macros (harness crate, analysed as MIR, never run)
hp, hkey, _ = extract.facts_for_repo(extract.REPO, want_harness=True)
H = facts.Facts(hp['rivia_macro_harness'])
hfns = sorted(n for n, b in H.bodies.items() if (b.get('root') if b['kind'] == 'Closure' else n).startswith('probe_'))
ht = {'_groups': {'C20': [f for f in hfns if 'defer' not in f], 'C19': [f for f in hfns if 'defer' in f]}}
ht.update(siteguard.collect(H, siteguard.BodyOnly(H), hfns))
json.dump(ht, open(os.path.join(T, 'site_guards_harness.json'), 'w'), indent=1, sort_keys=True)
print('%d probe sites frozen' % (len(ht) - 1))
