#!/bin/bash
# every check must stay silent on every behaviour-preserving patch under benign/; also verifies the patched tree still passes the lib tests when asked (TESTS=1)
cd /verif
for b in ${@:-benign/*.patch}; do
  D=$(mktemp -d /tmp/rivia-benign-XXXXXX)
  rsync -a --exclude target --exclude .git /repo/ "$D/"
  if ! (cd "$D" && patch -p1 -s < "/verif/$b"); then echo "NOAPPLY $b"; rm -rf "$D"; continue; fi
  if [ -n "$TESTS" ]; then (cd "$D" && cargo test --offline --lib 2>&1 | grep "test result" | sed "s|^|   tests: |"); fi
  bad=""
  for id in C01 C02 C03 C04 C05 C06 C07 C08 C09 C10 C11 C12 C13 C15 C17 C18 C19 C20; do
    out=$(VERIF_EVIDENCE_DIR="$D/.evidence" VERIF_REPO="$D" ./check $id --repo "$D" 2>&1)
    if echo "$out" | grep -q "^VIOLATION\|EXTRACTION FAILED"; then bad="$bad $id"; echo "$out" | grep "\[[A-Z]" | head -3 | cut -c1-260 | sed "s|^|      $id: |"; fi
  done
  if [ -z "$bad" ]; then echo "silent  $b"; else echo "ALARM   $b :$bad"; fi
  rm -rf "$D"
done
