#!/bin/bash
# usage: tools/at_commit.sh <commit> <cmd...>  — runs cmd against a scratch export of /repo at <commit>
set -e
C="$1"; shift
D=$(mktemp -d /tmp/rivia-at-XXXXXX)
trap 'rm -rf "$D"' EXIT
git -C /repo archive "$C" | tar -x -C "$D"
VERIF_EVIDENCE_DIR="$D/.evidence" VERIF_REPO="$D" "$@" --repo "$D"
