#!/usr/bin/env python3
"""Generates MANIFEST.json from tables/manifest_src.json (keeps the manifest valid and consistent)."""
import json, os
HERE = os.path.dirname(os.path.dirname(os.path.abspath(__file__)))
src = json.load(open(os.path.join(HERE, 'tables', 'manifest_src.json')))
checks = []
for c in src['checks']:
    pid = c['id']
    checks.append({
        'property_id': pid,
        'quick_cmd': './check %s --tier quick' % pid,
        'thorough_cmd': './check %s --tier thorough' % pid,
        'evidence_file': '/verif/evidence/%s.json' % pid,
        'replay_cmd_template': './check %s --replay {path}' % pid,
        'engine': 'rivia-facts + rules',
        'level_claimed': {'category': c['level'], 'text': c['text'], 'design_ref': c['design_ref']},
        'level_note': c['note'],
        'technique': c['technique'],
    })
m = {
    'version': 1,
    'setup_cmd': 'cd /verif/extractor && CARGO_NET_OFFLINE=true cargo build --release --offline',
    'hooks': {
        'guard': 'rivia_verif',
        'enable': 'none needed: the checks read source and MIR only; no instrumentation is compiled into /repo',
        'baseline_off_cmd': 'cd /repo && cargo test --workspace --no-fail-fast --offline',
        'source_commits': [],
        'add_only': True,
    },
    'engines': [
        {'name': 'rivia-facts', 'path': 'extractor/', 'serves_properties': [c['id'] for c in src['checks']],
         'kind_free_text': 'rustc_private driver (nightly) run as RUSTC_WORKSPACE_WRAPPER under cargo check: serialises items and MIR with resolved callees of /repo\'s current tree'},
        {'name': 'rules', 'path': 'rules/', 'serves_properties': [c['id'] for c in src['checks']],
         'kind_free_text': 'Python 3 (stdlib) rule engine over the extracted facts: CFG, dominators, provenance, call graph, summaries; one module per property'},
    ],
    'checks': checks,
    'notes': src.get('notes', ''),
    'not_applicable': src['not_applicable'],
}
ids = [json.loads(l)['id'] for l in open(os.path.join(HERE, 'properties.jsonl')) if l.strip()]
have = {c['property_id'] for c in checks} | {n['property_id'] for n in m['not_applicable']}
for i in ids:
    if i not in have:
        m['not_applicable'].append({'property_id': i, 'reason': 'check not built yet at this commit (design: DESIGN.md §4 %s; build order §8) — not claimed until its rules are armed' % i})
json.dump(m, open(os.path.join(HERE, 'MANIFEST.json'), 'w'), indent=1)
print('MANIFEST.json: %d checks, %d not applicable' % (len(checks), len(m['not_applicable'])))
