#!/usr/bin/env python3
"""tools/freeze_siteguards.py — regenerates the site entries of tables/site_guards.json from /repo's current tree (groups are kept)."""
import json, os, sys
sys.path.insert(0, os.path.join(os.path.dirname(os.path.abspath(__file__)), '..', 'rules'))
import extract, facts, callgraph, siteguard, engine, roles, panics
paths, key, _ = extract.facts_for_repo(extract.REPO)
F = facts.Facts(paths['rivia'])
panics.ALIASES.update(roles.aliases(F))
cg = callgraph.CallGraph(F)
p = os.path.join(engine.VERIF if hasattr(engine, 'VERIF') else os.path.join(os.path.dirname(os.path.abspath(__file__)), '..'), 'tables', 'site_guards.json')
t = json.load(open(p))
fns = sorted({f for g in t['_groups'].values() for f in g})
new = {'_groups': t['_groups']}
new.update(siteguard.collect(F, cg, fns))
json.dump(new, open(p, 'w'), indent=1, sort_keys=True)
print('%d sites frozen' % (len(new) - 1))
