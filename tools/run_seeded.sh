#!/bin/bash
# runs every check against every seeded change; prints which properties' checks report it
cd /verif
for sd in ${@:-seeded/*/}; do
  sd=${sd%/}
  D=$(mktemp -d /tmp/rivia-seedrun-XXXXXX)
  rsync -a --exclude target --exclude .git /repo/ "$D/"
  if ! (cd "$D" && patch -p1 -s < "/verif/$sd/patch.diff"); then echo "NOAPPLY $sd"; rm -rf "$D"; continue; fi
  hit=""
  for id in C01 C02 C03 C04 C05 C06 C07 C08 C09 C10 C11 C12 C13 C15 C17 C18 C19 C20; do
    out=$(VERIF_EVIDENCE_DIR="$D/.evidence" VERIF_REPO="$D" ./check $id --repo "$D" 2>&1)
    if echo "$out" | grep -q "^VIOLATION"; then
      k=$(echo "$out" | grep -o "\[[A-Z][A-Z-]* " | sort | uniq -c | tr -s ' ' | tr '\n' ' ')
      hit="$hit $id"; echo "      $id: $k"
    fi
  done
  echo "$sd => detected by:${hit:- NONE}"
  rm -rf "$D"
done
