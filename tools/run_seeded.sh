#!/bin/bash
# runs every check against every seeded change (in parallel); prints which properties' checks report it and through which rules
cd /verif
ls -d ${@:-seeded/*/} | sed 's:/$::' | xargs -P 6 -L 1 bash -c '
sd=$0
D=$(mktemp -d /tmp/rivia-seedrun-XXXXXX)
rsync -a --exclude target --exclude .git /repo/ "$D/"
if ! (cd "$D" && patch -p1 -s < "/verif/$sd/patch.diff"); then echo "NOAPPLY $sd"; rm -rf "$D"; exit 0; fi
hit=""; det=""
for id in C01 C02 C03 C04 C05 C06 C07 C08 C09 C10 C11 C12 C13 C15 C17 C18 C19 C20; do
  out=$(VERIF_EVIDENCE_DIR="$D/.evidence" VERIF_REPO="$D" ./check $id --repo "$D" 2>&1)
  if echo "$out" | grep -q "^VIOLATION"; then
    k=$(echo "$out" | grep -o "\[[A-Z][A-Z-]* " | sort | uniq -c | tr -s " " | tr "\n" " ")
    hit="$hit $id"; det="$det      $id: $k
"
  fi
done
printf "%s%s => detected by:%s\n" "$det" "$sd" "${hit:- NONE}"
rm -rf "$D"
'
