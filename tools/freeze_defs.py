#!/usr/bin/env python3
"""tools/freeze_defs.py — (re)writes tables/defs.json from /repo's current tree: the function names + signatures that name-keyed tables refer to."""
import json, os, sys
sys.path.insert(0, os.path.join(os.path.dirname(os.path.abspath(__file__)), '..', 'rules'))
import extract, renames
paths, key, _ = extract.facts_for_repo(extract.REPO)
d = json.load(open(paths['rivia']))
fz = renames.freeze(d)
json.dump(fz, open(renames.TABLE, 'w'), indent=0, sort_keys=True)
print('froze %d function signatures' % len(fz))
