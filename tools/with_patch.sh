#!/bin/bash
# usage: tools/with_patch.sh <patch-file> <cmd...>   — runs cmd with VERIF_REPO pointing to a scratch copy of /repo with the patch applied
set -e
PATCH=$(realpath "$1"); shift
D=$(mktemp -d /tmp/rivia-scratch-XXXXXX)
trap 'rm -rf "$D"' EXIT
rsync -a --exclude target --exclude .git /repo/ "$D/"
(cd "$D" && patch -p1 -s < "$PATCH")
VERIF_EVIDENCE_DIR="$D/.evidence" VERIF_REPO="$D" "$@" --repo "$D"
