#!/usr/bin/env python3
"""Maintenance tool (never run by a check): recompute the structural keys of tables/panic_excuses.json after the
description functions changed.  Entries are matched through their `human` field (function|kind|name-based description)."""
import json, sys, os
HERE = os.path.dirname(os.path.dirname(os.path.abspath(__file__)))
sys.path.insert(0, os.path.join(HERE, 'rules'))
import facts, extract, panics
from callgraph import CallGraph
paths, key, _ = extract.facts_for_repo()
F = facts.Facts(paths['rivia'])
cg = CallGraph(F)
p = os.path.join(HERE, 'tables', 'panic_excuses.json')
old = json.load(open(p))
by_human = {}
for k, v in old.items():
    if isinstance(v, dict) and 'human' in v:
        by_human[v['human']] = v
new = {}
for n in cg.names():
    B = cg.body(n)
    for s in panics.panic_sites(B):
        h = '%s|%s|%s' % (s.fn, s.kind, s.desc)
        if h in by_human:
            new[s.key] = by_human[h]
missing = [h for h in by_human if not any(v.get('human') == h for v in new.values())]
json.dump(new, open(p, 'w'), indent=1)
print('re-keyed %d entries; unmatched: %s' % (len(new), missing))
