#!/bin/bash
# usage: tools/run_mutants.sh [ID...]  — runs every mutant of the given properties (default all) in parallel and prints one line each
cd /verif
ids="$@"; [ -z "$ids" ] && ids=$(ls mutants)
for id in $ids; do for m in mutants/$id/*.patch; do echo "$id $m"; done; done | xargs -P 8 -L 1 bash -c '
id=$0; m=$1
out=$(tools/with_patch.sh $m ./check $id 2>&1)
rc=$?
if echo "$out" | grep -q "EXTRACTION FAILED"; then st="NOCOMPILE"; elif echo "$out" | grep -q "^VIOLATION"; then st="detected"; else st="MISSED"; fi
k=$(echo "$out" | grep "\[" | grep -v "s\]$" | head -1 | sed "s/.*\[//" | cut -c1-110)
echo "$st $m  [$k"
'
