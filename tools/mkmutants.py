#!/usr/bin/env python3
"""Maintenance tool: (re)generate the hand-written mutant patches under mutants/<ID>/ against /repo's current HEAD.
Each mutant is one small compile-preserving edit that breaks the named property; thorough-tier self tests require the check to report it."""
import os, subprocess, sys
REPO = '/repo'
OUT = '/verif/mutants'
M = []


def mut(prop, name, file, old, new, count=1):
    M.append((prop, name, file, old, new, count))


V = 'src/sys/fs/vfs.rs'
MV = 'src/sys/fs/memfs/vfs.rs'
SM = 'src/sys/fs/stdfs/mod.rs'
EN = 'src/sys/fs/entries.rs'
ME = 'src/sys/fs/memfs/entry.rs'
MF = 'src/sys/fs/memfs/file.rs'
PA = 'src/sys/fs/path.rs'
# ---- C13
mut('C13', 'mkfile_m_arm_calls_mkfile', V, "Vfs::Memfs(x) => x.mkfile_m(path, mode),", "Vfs::Memfs(x) => { let _ = mode; x.mkfile(path) },")
mut('C13', 'symlink_args_swapped', V, "Vfs::Stdfs(x) => x.symlink(link, target),", "Vfs::Stdfs(x) => x.symlink(target, link),")
mut('C13', 'chown_uid_twice', V, "Vfs::Memfs(x) => x.chown(path, uid, gid),", "Vfs::Memfs(x) => { let _ = gid; x.chown(path, uid, uid) },")
mut('C13', 'entry_is_dir_arm_is_file', 'src/sys/fs/entry.rs', "VfsEntry::Memfs(x) => x.is_dir(),", "VfsEntry::Memfs(x) => x.is_file(),")
mut('C13', 'stdfs_forwarder_misroute', 'src/sys/fs/stdfs/vfs.rs', "Stdfs::all_files(path)", "Stdfs::all_paths(path)")
# ---- C04
mut('C04', 'exists_inside_remove_guard', MV, "        // First check if the target contains files\n        if let Some(entry) = guard.get_entry(&path) {", "        if !self.exists(&path) {\n            return Ok(());\n        }\n        // First check if the target contains files\n        if let Some(entry) = guard.get_entry(&path) {")
mut('C04', 'guard_ctor_pub', MV, "    pub(crate) fn write_guard(&self) -> MemfsGuard {", "    pub fn write_guard(&self) -> MemfsGuard {")
mut('C04', 'sleep_under_guard', MV, "        guard.set_cwd(path.clone());\n        Ok(path)", "        std::thread::sleep(std::time::Duration::from_millis(1));\n        guard.set_cwd(path.clone());\n        Ok(path)")
mut('C04', 'mkfile_two_sections', MV, "    fn mkfile<T: AsRef<Path>>(&self, path: T) -> RvResult<PathBuf> {\n        let mut guard = self.write_guard();\n        let path = self._abs(&guard, path)?;", "    fn mkfile<T: AsRef<Path>>(&self, path: T) -> RvResult<PathBuf> {\n        let path = self.abs(path)?;\n        let mut guard = self.write_guard();")
mut('C04', 'entry_iter_captures_memfs', MV, "        let entries = Arc::new(self._clone_entries(guard, path)?);\n        Ok(Box::new(move |path: &Path, follow: bool| -> RvResult<EntryIter> {\n            let entries = entries.clone();", "        let entries = Arc::new(self._clone_entries(guard, path)?);\n        let vfs = self.clone();\n        Ok(Box::new(move |path: &Path, follow: bool| -> RvResult<EntryIter> {\n            let _live = vfs.exists(path);\n            let entries = entries.clone();")
mut('C04', 'store_handle_in_map', MV, "        // Create an empty file to write to\n        Ok(Box::new(MemfsFile {", "        guard.insert_file(path.clone(), MemfsFile { pos: 0, data: vec![], path: Some(path.clone()), fs: Some(self.clone()) });\n        // Create an empty file to write to\n        Ok(Box::new(MemfsFile {")
# ---- C01 / C03
mut('C01', 'remove_emptiness_test_after_parent_update', MV, "        // First check if the target contains files\n        if let Some(entry) = guard.get_entry(&path) {\n            if let Some(ref files) = entry.files {\n                if !files.is_empty() {\n                    return Err(PathError::dir_contains_files(path).into());\n                }\n            }\n        }\n\n        // Next remove the file from its parent\n        let dir = path.dir()?;\n        if let Some(entry) = guard.get_entry_mut(&dir) {\n            entry.remove(path.base()?)?;\n        }\n", "        // Next remove the file from its parent\n        let dir = path.dir()?;\n        if let Some(entry) = guard.get_entry_mut(&dir) {\n            entry.remove(path.base()?)?;\n        }\n\n        // Check if the target contains files\n        if let Some(entry) = guard.get_entry(&path) {\n            if let Some(ref files) = entry.files {\n                if !files.is_empty() {\n                    return Err(PathError::dir_contains_files(path).into());\n                }\n            }\n        }\n")
mut('C01', 'set_cwd_assign_before_validate', MV, "        if !guard.contains_entry(&path) {\n            return Err(PathError::does_not_exist(&path).into());\n        }\n        guard.set_cwd(path.clone());", "        guard.set_cwd(path.clone());\n        if !guard.contains_entry(&path) {\n            return Err(PathError::does_not_exist(&path).into());\n        }")
mut('C01', 'move_p_validation_dropped', MV, "        match guard.get_entry(&dst_parent) {\n            Some(parent) if parent.is_dir() => {},\n            Some(_) => return Err(PathError::is_not_dir(dst_parent).into()),\n            None => return Err(PathError::parent_not_found(dst_parent).into()),\n        }\n", "        let _ = &dst_parent;\n")
mut('C03', 'entry_files_written_elsewhere', MV, "        // Finally remove the entry from the filesystem\n        guard.remove_entry(&path);\n        Ok(())", "        if let Some(parent) = guard.get_entry_mut(&dir) {\n            parent.files = parent.files.take();\n        }\n        // Finally remove the entry from the filesystem\n        guard.remove_entry(&path);\n        Ok(())")
mut('C03', 'set_cwd_raw_path', MV, "        let path = self._abs(&guard, path)?;\n        if !guard.contains_entry(&path) {\n            return Err(PathError::does_not_exist(&path).into());\n        }\n        guard.set_cwd(path.clone());", "        let raw = path.as_ref().to_path_buf();\n        let path = self._abs(&guard, path)?;\n        if !guard.contains_entry(&path) {\n            return Err(PathError::does_not_exist(&path).into());\n        }\n        guard.set_cwd(raw);")
# ---- C05
mut('C05', 'stdfs_abs_without_trim_protocol', SM, "        path_buf = sys::trim_protocol(path_buf);\n", "")
mut('C05', 'memfs_mode_raw_path', MV, "    fn mode<T: AsRef<Path>>(&self, path: T) -> RvResult<u32> {\n        let guard = self.read_guard();\n        let path = self._abs(&guard, path)?;", "    fn mode<T: AsRef<Path>>(&self, path: T) -> RvResult<u32> {\n        let guard = self.read_guard();\n        let path = path.as_ref().to_path_buf();")
mut('C05', 'stdfs_uid_raw_path', SM, "        Ok(fs::metadata(Stdfs::abs(path)?)?.uid())", "        Ok(fs::metadata(path.as_ref())?.uid())")
mut('C05', 'abs_clean_before_trim', MV, "        path_buf = path_buf.trim_protocol();\n\n        // Clean the resulting path\n        path_buf = path_buf.clean();", "        path_buf = path_buf.clean();\n\n        // Trim protocol\n        path_buf = path_buf.trim_protocol();")
mut('C05', 'abs_does_io', SM, "        // Expand home directory\n        let mut path_buf = sys::expand(path)?;", "        // Expand home directory\n        let mut path_buf = sys::expand(path)?;\n        if let Ok(real) = fs::canonicalize(&path_buf) {\n            path_buf = real;\n        }", 1)
# ---- C07
mut('C07', 'flush_noop', MF, "    fn flush(&mut self) -> io::Result<()> {\n        self.sync()\n    }", "    fn flush(&mut self) -> io::Result<()> {\n        Ok(())\n    }")
mut('C07', 'seek_never_errs', MF, "            None => Err(io::Error::new(\n                io::ErrorKind::InvalidInput,\n                \"invalid seek to a negative or overflowing position\",\n            )),", "            None => {\n                self.pos = 0;\n                Ok(self.pos)\n            },")
mut('C07', 'read_unclamped_pos', MF, "        let pos = cmp::min(self.pos, self.data.len() as u64) as usize;", "        let pos = self.pos as usize;")
mut('C07', 'sync_wrong_key', MF, "                    if let Some(f) = guard.get_file_mut(path) {", "                    if let Some(f) = guard.get_file_mut(&path.with_extension(\"\")) {")
# ---- C08
mut('C08', 'stdfs_all_files_unsorted', SM, "for entry in Stdfs::entries(src.path())?.min_depth(1).sort_by_name().files() {", "for entry in Stdfs::entries(src.path())?.min_depth(1).files() {")
mut('C08', 'entries_files_sets_dirs', EN, "    pub fn files(mut self) -> Self {\n        self.dirs = false;\n        self.files = true;", "    pub fn files(mut self) -> Self {\n        self.dirs = true;\n        self.files = true;")
mut('C08', 'memfs_dirs_depth_two', MV, "for entry in entries.min_depth(1).max_depth(1).sort_by_name().dirs() {", "for entry in entries.min_depth(1).max_depth(2).sort_by_name().dirs() {")
mut('C08', 'files_flag_installs_is_dir', EN, "iter.filter = Some(Box::new(|x: &VfsEntry| -> bool { x.is_file() }));", "iter.filter = Some(Box::new(|x: &VfsEntry| -> bool { x.is_dir() }));")
mut('C08', 'deferred_yield_unfiltered', EN, "                    match self.filtered(entry) {\n                        Some(entry) => return Some(Ok(entry)),\n                        None => continue, // None indicates filtered out so get another\n                    }", "                    return Some(Ok(entry));")
mut('C08', 'depth_read_after_push', EN, "        let depth = self.iters.len(); // save depth before possible recursion\n\n", "", 1)
mut('C08', 'depth_read_after_push', EN, "        // Return None if min depth marker is not satisfied\n        if depth < self.opts.min_depth {", "        // Return None if min depth marker is not satisfied\n        let depth = self.iters.len();\n        if depth < self.opts.min_depth {", 1)
mut('C08', 'defer_before_min_depth', EN, "        // Return None if min depth marker is not satisfied\n        if depth < self.opts.min_depth {\n            return None;\n        }\n\n        // Defer directories as directed\n        if entry.is_dir() && self.opts.contents_first {\n            self.deferred.push(entry);\n            return None;\n        }\n", "        // Defer directories as directed\n        if entry.is_dir() && self.opts.contents_first {\n            self.deferred.push(entry);\n            return None;\n        }\n\n        // Return None if min depth marker is not satisfied\n        if depth < self.opts.min_depth {\n            return None;\n        }\n", 1)
# ---- C10
mut('C10', 'memfs_is_file_no_link_exclusion', MV, "            Some(entry) => !entry.is_symlink() && entry.is_file(),", "            Some(entry) => entry.is_file(),")
mut('C10', 'memfs_readlink_no_guard', MV, "            if !entry.is_symlink() {\n                return Err(PathError::is_not_symlink(path).into());\n            }\n            Ok(entry.rel_buf())", "            Ok(entry.rel_buf())")
mut('C10', 'follow_swaps_twice', ME, "        if follow && self.link && !self.follow {", "        if follow && self.link {")
mut('C10', 'stdfs_remove_follows', SM, "        if let Ok(meta) = fs::symlink_metadata(&path) {\n            if meta.is_file() || meta.file_type().is_symlink() {", "        if let Ok(meta) = fs::metadata(&path) {\n            if meta.is_file() || meta.file_type().is_symlink() {")
mut('C10', 'is_symlink_file_default_wrong', 'src/sys/fs/entry.rs', "        self.is_symlink() && self.is_file()", "        self.is_symlink() && self.is_dir()")
# ---- C11
mut('C11', 'chmod_ignores_link_guard', MV, "            if (!src.is_symlink() || opts.follow) && m2 != src.mode() && m2 != 0 {", "            if m2 != src.mode() && m2 != 0 {")
mut('C11', 'set_mode_direct', ME, "        // Set the new mode\n        self.mode = opts.mode;", "        // Set the new mode\n        self.mode = mode.unwrap_or(opts.mode);")
mut('C11', 'chmod_dirs_sets_files', 'src/sys/fs/chmod.rs', "    pub fn dirs(mut self, mode: u32) -> Self {\n        self.opts.dirs = mode;", "    pub fn dirs(mut self, mode: u32) -> Self {\n        self.opts.files = mode;")
mut('C11', 'mode_mismatch_returns', 'src/sys/fs/chmod.rs', "                        // target mismatch so skip this clause and carry on with the next one\n                        while let Some(x) = chars.pop() {\n                            if x == ',' {\n                                break;\n                            }\n                        }\n                        break;", "                        return Ok(mode); // target mismatch so just return the original mode")
mut('C11', 'chown_not_recursive_by_flag', MV, "        let max_depth = if opts.recursive { usize::MAX } else { 0 };\n        let entries = self.entries(&opts.path)?.max_depth(max_depth).follow(opts.follow);", "        let max_depth = if opts.recursive { 0 } else { usize::MAX };\n        let entries = self.entries(&opts.path)?.max_depth(max_depth).follow(opts.follow);")
mut('C11', 'stdfs_is_exec_follows', SM, "            Ok(x) => match fs::symlink_metadata(x) {\n                Ok(y) => y.permissions().mode() & 0o111 != 0,", "            Ok(x) => match fs::metadata(x) {\n                Ok(y) => y.permissions().mode() & 0o111 != 0,")
# ---- C12
mut('C12', 'unwrap_under_guard', MV, "        let dir = path.dir()?;\n        if let Some(entry) = guard.get_entry(&dir) {\n            if !entry.is_dir() {", "        let dir = path.dir()?;\n        let _name = path.file_name().unwrap();\n        if let Some(entry) = guard.get_entry(&dir) {\n            if !entry.is_dir() {")
mut('C12', 'trim_prefix_char_offset', PA, "PathBuf::from(&base[prefix.len()..])", "PathBuf::from(&base[prefix.size()..])")
mut('C12', 'str_index_under_guard', MV, "    pub(crate) fn _abs<T: AsRef<Path>>(&self, guard: &MemfsGuard, path: T) -> RvResult<PathBuf> {\n        let path = path.as_ref();", "    pub(crate) fn _abs<T: AsRef<Path>>(&self, guard: &MemfsGuard, path: T) -> RvResult<PathBuf> {\n        let path = path.as_ref();\n        if path.to_string()?[1..].is_empty() {\n            return Ok(guard.root());\n        }")
# ---- C15
mut('C15', 'mash_single_strip', PA, "    let mut base = trim_prefix(base, &sep);\n    while has_prefix(&base, &sep) {\n        base = trim_prefix(base, &sep);\n    }", "    let base = trim_prefix(base, &sep);")
mut('C15', 'trim_suffix_char_offset', PA, "PathBuf::from(&base[..base.len() - suffix.len()])", "PathBuf::from(&base[..base.size() - suffix.size()])")
mut('C15', 'pathext_relative_swapped', PA, "    fn relative<T: AsRef<Path>>(&self, path: T) -> RvResult<PathBuf> {\n        relative(self, path)", "    fn relative<T: AsRef<Path>>(&self, path: T) -> RvResult<PathBuf> {\n        relative(path.as_ref(), self)")
# ---- C06
mut('C06', 'copy_moves_source_data', MV, "                        let dst_file = self._clone_file(guard, src.path())?;", "                        let dst_file = guard.remove_file(src.path()).unwrap_or_default();")
mut('C06', 'write_all_wrong_key', MV, "        if let Some(file) = guard.get_file_mut(&path) {\n            file.data = data.as_ref().to_vec();", "        if let Some(file) = guard.get_file_mut(&path.dir()?) {\n            file.data = data.as_ref().to_vec();")
# ---- C09
mut('C09', 'copy_dst_not_relative', MV, "                dst_root.mash(src.path().trim_prefix(src_root.path()))\n            };\n\n            // Recreate links", "                dst_root.mash(src.path().base()?)\n            };\n\n            // Recreate links")
mut('C09', 'copier_chmod_dirs_flags', 'src/sys/fs/copy.rs', "        self.opts.cdirs = true;\n        self.opts.cfiles = false;", "        self.opts.cdirs = true;\n        self.opts.cfiles = true;")
mut('C09', 'copy_dir_mode_condition_swapped', MV, "            Some(x) if cp.cdirs || !cp.cfiles => Some(x),", "            Some(x) if cp.cfiles || !cp.cdirs => Some(x),")
mut('C02', 'stdfs_copy_file_mode_condition', SM, "            Some(x) if cp.cfiles || !cp.cdirs => Some(x),", "            Some(x) if cp.cfiles && !cp.cdirs => Some(x),")
mut('C07', 'sync_skips_equal_length', MF, "                        f.data.clone_from(&self.data);", "                        if f.data.len() != self.data.len() {\n                            f.data.clone_from(&self.data);\n                        }")
mut('C18', 'config_dir_conditional_insert', MV, "                config_dirs.insert(0, config_dir);", "                if !config_dirs.contains(&config_dir) {\n                    config_dirs.insert(0, config_dir);\n                }")
mut('C19', 'slice_len_from_size_hint', 'src/core/iter.rs', "        let len = (self.clone()).count() as isize;", "        let len = match self.size_hint().1 {\n            Some(n) => n as isize,\n            None => (self.clone()).count() as isize,\n        };")
mut('C15', 'trim_prefix_skip_bytes_as_chars', PA, "PathBuf::from(&base[prefix.len()..])", "PathBuf::from(base.chars().skip(prefix.len()).collect::<String>())")
# ---- C02
mut('C02', 'stdfs_chmod_b_default_nonrecursive', SM, "                follow: false,\n                recursive: true,\n                sym: \"\".to_string(),", "                follow: false,\n                recursive: false,\n                sym: \"\".to_string(),")
mut('C02', 'stdfs_append_line_no_newline', SM, "            Stdfs::append_all(path, line + \"\\n\")?;", "            Stdfs::append_all(path, line)?;")
# ---- C18 done separately; C17 done; C19 done; C20 done

# ---- rules added after the fourth batch of seeded changes
mut('C06', 'stdfs_write_no_truncate', SM, "        Ok(Box::new(File::create(Stdfs::abs(path)?)?))", "        Ok(Box::new(File::options().write(true).create(true).open(Stdfs::abs(path)?)?))")
mut('C06', 'stdfs_append_truncates', SM, "File::options().append(true)", "File::options().write(true).truncate(true)")
mut('C06', 'memfs_write_keeps_old_data', MV, "            pos: 0,\n            data: vec![],\n            path: Some(path),", "            pos: 0,\n            data: guard.get_file(&path).map(|f| f.data.clone()).unwrap_or_default(),\n            path: Some(path),")
mut('C07', 'seek_current_from_len', MF, "            io::SeekFrom::Current(offset) => (self.pos, offset),", "            io::SeekFrom::Current(offset) => (self.data.len() as u64, offset),")
mut('C07', 'seek_end_from_pos', MF, "            io::SeekFrom::End(offset) => (self.data.len() as u64, offset),", "            io::SeekFrom::End(offset) => (self.pos, offset),")
mut('C15', 'ext_via_rsplit', PA, "    match path.as_ref().extension() {\n        Some(val) => val.to_string(),", "    match path.as_ref().to_string()?.rsplit_once('.').map(|x| x.1.to_string()) {\n        Some(val) => Ok(val),")
mut('C17', 'expand_literal_scanner_consumes', PA, "                        str += &chars.take_while_p(|&x| x != '$').collect::<String>();\n\n                        // Read variable if it exists\n                        if chars.next_if_eq(&'$').is_some() {", "                        str += &chars.by_ref().take_while(|&x| x != '$').collect::<String>();\n\n                        // Read variable if it exists\n                        if chars.peek().is_some() {")
mut('C17', 'var_name_stops_at_slash_only', PA, "chars.take_while_p(|&x| x != '$' && x != '}')", "chars.take_while_p(|&x| x != '$' && x != '/')")
mut('C19', 'string_trim_suffix_rfind', 'src/core/string.rs', "        match self.ends_with(&target) {\n            true => self[..self.len() - target.len()].to_owned(),\n            _ => self.to_owned(),\n        }\n    }\n}\n\n/// Provides to_string", "        match self.rfind(&target) {\n            Some(i) => self[..i].to_owned(),\n            _ => self.to_owned(),\n        }\n    }\n}\n\n/// Provides to_string")

mut('C19', 'slice_abs_min', 'src/core/iter.rs', "        } else if right < 0 && right.unsigned_abs() <= len as usize {\n            r = right.unsigned_abs() - 1;", "        } else if right < 0 && right.abs() <= len {\n            r = (right.abs() - 1).unsigned_abs();")
mut('C19', 'slice_unguarded_left', 'src/core/iter.rs', "        if left < 0 {\n            l = (len + left) as usize;\n        }", "        if left != 0 {\n            l = (len + left) as usize;\n        }")

mut('C12', 'expand_home_slice_without_prefix_check', 'src/sys/fs/path.rs', "        cnt if cnt > 1 => return Err(PathError::multiple_home_symbols(path).into()),\n", "")


def main():
    base = subprocess.check_output(['git', '-C', REPO, 'status', '--porcelain', '--', 'src'], text=True).strip()
    if base:
        sys.exit('refusing: /repo/src has uncommitted changes')
    made = 0
    groups = {}
    for prop, name, file, old, new, count in M:
        groups.setdefault((prop, name), []).append((file, old, new, count))
    for (prop, name), edits in groups.items():
        bad = False
        for file, old, new, count in edits:          # several edits under one name make one mutant
            p = os.path.join(REPO, file)
            s = open(p).read()
            if s.count(old) < 1:
                print('ANCHOR NOT FOUND: %s/%s' % (prop, name))
                bad = True
                break
            open(p, 'w').write(s.replace(old, new, count))
        d = subprocess.check_output(['git', '-C', REPO, 'diff', '--', 'src'], text=True)
        subprocess.check_call(['git', '-C', REPO, 'checkout', '--', 'src'])
        if bad:
            continue
        os.makedirs(os.path.join(OUT, prop), exist_ok=True)
        open(os.path.join(OUT, prop, name + '.patch'), 'w').write(d)
        made += 1
    print('wrote %d mutant patches' % made)


if __name__ == '__main__':
    main()
