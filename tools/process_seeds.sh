#!/bin/bash
# usage: tools/process_seeds.sh <round-letter> <ID...>  — confirm each finished seed worktree /tmp/seed/<ID><round>, store it, run all checks on it, drop the worktree
r="$1"; shift
cd /verif
for i in "$@"; do
  echo "=== $i-$r"
  tools/confirm_seed.sh /tmp/seed/${i}${r} ${i}-${r} 2>&1 | tail -3 | cut -c1-220
  git -C /repo worktree remove --force /tmp/seed/${i}${r}
done
git -C /repo worktree prune
tools/run_seeded.sh $(for i in "$@"; do echo seeded/${i}-${r}; done) 2>&1
