#!/usr/bin/env python3
"""Maintenance tool: generate behaviour-preserving refactorings under benign/ — every check must stay silent on them."""
import os, subprocess, sys, re
REPO = '/repo'
OUT = '/verif/benign'
B = []


def ben(name, edits):
    B.append((name, edits))


MV = 'src/sys/fs/memfs/vfs.rs'
SM = 'src/sys/fs/stdfs/mod.rs'
V = 'src/sys/fs/vfs.rs'
US = 'src/sys/user.rs'
PA = 'src/sys/fs/path.rs'
EN = 'src/sys/fs/entries.rs'
MF = 'src/sys/fs/memfs/file.rs'

ben('rename_locals_move_p', [(MV, 're', r'\bsrc_path\b', 'spath'), (MV, 're', r'\bdst_first\b', 'first_dst'), (MV, 're', r'\bdst_parent\b', 'parent_of_dst')])
ben('rename_private_abs_helper', [(MV, 're', r'\b_abs\b', '_resolve'), ('src/sys/fs/memfs/file.rs', 're', r'\b_abs\b', '_resolve')])
ben('vfs_arm_ref_reordered', [(V, 's', "    fn cwd(&self) -> RvResult<PathBuf> {\n        match self {\n            Vfs::Stdfs(x) => x.cwd(),\n            Vfs::Memfs(x) => x.cwd(),\n        }\n    }",
                        "    fn cwd(&self) -> RvResult<PathBuf> {\n        match *self {\n            Self::Memfs(ref fs) => VirtualFileSystem::cwd(fs),\n            Self::Stdfs(ref fs) => fs.cwd(),\n        }\n    }")])
ben('add_question_to_match', [(MV, 's', "        let dir = path.dir()?;\n        if let Some(entry) = guard.get_entry(&dir) {\n            if !entry.is_dir() {\n                return Err(PathError::is_not_dir(dir).into());",
                               "        let dir = match path.dir() {\n            Ok(d) => d,\n            Err(e) => return Err(e),\n        };\n        if let Some(entry) = guard.get_entry(&dir) {\n            if !entry.is_dir() {\n                return Err(PathError::is_not_dir(dir).into());")])
ben('set_cwd_narrow_guard', [(MV, 's', "    fn set_cwd<T: AsRef<Path>>(&self, path: T) -> RvResult<PathBuf> {\n        let mut guard = self.write_guard();\n        let path = self._abs(&guard, path)?;\n        if !guard.contains_entry(&path) {\n            return Err(PathError::does_not_exist(&path).into());\n        }\n        guard.set_cwd(path.clone());\n        Ok(path)\n    }",
                              "    fn set_cwd<T: AsRef<Path>>(&self, path: T) -> RvResult<PathBuf> {\n        let path = {\n            let mut guard = self.write_guard();\n            let path = self._abs(&guard, path)?;\n            if !guard.contains_entry(&path) {\n                return Err(PathError::does_not_exist(&path).into());\n            }\n            guard.set_cwd(path.clone());\n            path\n        };\n        Ok(path)\n    }")])
ben('mkdir_helper_extracted', [(MV, 's', "    fn mkdir_p<'a, T: AsRef<Path>>(&self, path: T) -> RvResult<PathBuf> {\n        let mut guard = self.write_guard();\n        let abs = self._abs(&guard, path)?;\n        self._mkdir_m(&mut guard, &abs, None)?;\n        Ok(abs)\n    }",
                                "    fn mkdir_p<'a, T: AsRef<Path>>(&self, path: T) -> RvResult<PathBuf> {\n        let mut guard = self.write_guard();\n        self._mkdir_locked(&mut guard, path, None)\n    }"),
                               (MV, 's', "    // Execute chmod with the given options\n    fn _chmod(&self, opts: ChmodOpts) -> RvResult<()> {",
                                "    // Shared body of mkdir_p / mkdir_m under an already held guard\n    fn _mkdir_locked<T: AsRef<Path>>(&self, guard: &mut MemfsGuard, path: T, mode: Option<u32>) -> RvResult<PathBuf> {\n        let abs = self._abs(guard, path)?;\n        self._mkdir_m(guard, &abs, mode)?;\n        Ok(abs)\n    }\n\n    // Execute chmod with the given options\n    fn _chmod(&self, opts: ChmodOpts) -> RvResult<()> {")])
ben('xdg_helper_refactor', [(US, 's', "pub fn cache_dir() -> RvResult<PathBuf> {\n    Ok(match env::var(\"XDG_CACHE_HOME\") {\n        Ok(x) => PathBuf::from(x),\n        Err(_) => home_dir()?.mash(\".cache\"),\n    })\n}",
                             "pub fn cache_dir() -> RvResult<PathBuf> {\n    let value = env::var(\"XDG_CACHE_HOME\");\n    Ok(match value {\n        Ok(x) => PathBuf::from(x),\n        Err(_) => {\n            let home = home_dir()?;\n            home.mash(\".cache\")\n        },\n    })\n}")])
# (reorder_validations_remove was dropped: hoisting `path.dir()?` above the emptiness test changes the error of remove("/") on a non-empty root from
#  DirContainsFiles to ParentNotFound — not behaviour-preserving; SITE-GUARD reports it)
ben('read_rename_and_comment', [(MF, 's', "        let pos = cmp::min(self.pos, self.data.len() as u64) as usize;", "        // clamp the start offset to the data length\n        let start = cmp::min(self.pos, self.data.len() as u64) as usize;"),
                                (MF, 're', r'\[pos\.\.pos \+ len\]', '[start..start + len]')])
ben('entries_process_rename', [(EN, 're', r'\bdepth\b', 'level')])
ben('stdfs_is_dir_early_return', [(SM, 's', "    pub fn is_dir<T: AsRef<Path>>(path: T) -> bool {\n        match Stdfs::abs(path) {\n            Ok(abs) => match fs::symlink_metadata(abs) {\n                Ok(x) => !x.file_type().is_symlink() && x.is_dir(),\n                _ => false,\n            },\n            Err(_) => false,\n        }\n    }",
                                   "    pub fn is_dir<T: AsRef<Path>>(path: T) -> bool {\n        let abs = match Stdfs::abs(path) {\n            Ok(abs) => abs,\n            Err(_) => return false,\n        };\n        let meta = match fs::symlink_metadata(abs) {\n            Ok(x) => x,\n            _ => return false,\n        };\n        if meta.file_type().is_symlink() {\n            return false;\n        }\n        meta.is_dir()\n    }")])

# ---- refactors inside the functions whose branching skeleton is frozen (SITE-GUARD / ERR-GUARD / IO-TABLE)
ben('process_min_depth_flipped', [(EN, 's', "        if depth < self.opts.min_depth {\n            return None;\n        }", "        if self.opts.min_depth > depth {\n            return None;\n        }")])
ben('chmod_hoist_mode', [(MV, 's', "            if (!x.is_symlink() || m.follow) && x.is_dir() && !sys::revoking_mode(x.mode(), m1) && x.mode() != m1 {\n                let mut guard = vfs.write_guard();",
                          "            let cur = x.mode();\n            if (!x.is_symlink() || m.follow) && x.is_dir() && !sys::revoking_mode(cur, m1) && cur != m1 {\n                let mut guard = vfs.write_guard();")])
ben('stdfs_move_p_explicit_match', [(SM, 's', "        fs::rename(src_path, dst_path)?;\n        Ok(())", "        if let Err(e) = fs::rename(src_path, dst_path) {\n            return Err(e.into());\n        }\n        Ok(())")])
ben('memfs_remove_check_extracted', [(MV, 's', "        // First check if the target contains files\n        if let Some(entry) = guard.get_entry(&path) {\n            if let Some(ref files) = entry.files {\n                if !files.is_empty() {\n                    return Err(PathError::dir_contains_files(path).into());\n                }\n            }\n        }\n\n        // Next remove the file from its parent\n        let dir = path.dir()?;\n        if let Some(entry) = guard.get_entry_mut(&dir) {\n            entry.remove(path.base()?)?;",
                                      "        // First check if the target contains files\n        Memfs::_ensure_no_children(&guard, &path)?;\n\n        // Next remove the file from its parent\n        let dir = path.dir()?;\n        if let Some(entry) = guard.get_entry_mut(&dir) {\n            entry.remove(path.base()?)?;"),
                                     (MV, 's', "    // Execute chmod with the given options\n    fn _chmod(&self, opts: ChmodOpts) -> RvResult<()> {",
                                      "    // Fail if the given path is a directory that still has children\n    fn _ensure_no_children(guard: &MemfsGuard, path: &Path) -> RvResult<()> {\n        if let Some(entry) = guard.get_entry(path) {\n            if let Some(ref files) = entry.files {\n                if !files.is_empty() {\n                    return Err(PathError::dir_contains_files(path).into());\n                }\n            }\n        }\n        Ok(())\n    }\n\n    // Execute chmod with the given options\n    fn _chmod(&self, opts: ChmodOpts) -> RvResult<()> {")])
ben('stdfs_remove_all_helper', [(SM, 's', "        let path = Stdfs::abs(path)?;\n        if Stdfs::exists(&path) {\n            fs::remove_dir_all(path)?;\n        }\n        Ok(())\n    }",
                                 "        let path = Stdfs::abs(path)?;\n        if Stdfs::exists(&path) {\n            Stdfs::_rm_tree(&path)?;\n        }\n        Ok(())\n    }\n\n    // Remove the given absolute path and everything below it\n    fn _rm_tree(path: &Path) -> RvResult<()> {\n        fs::remove_dir_all(path)?;\n        Ok(())\n    }")])
ben('process_defer_nested_if', [(EN, 's', "        if entry.is_dir() && self.opts.contents_first {\n            self.deferred.push(entry);\n            return None;\n        }",
                                 "        if self.opts.contents_first {\n            if entry.is_dir() {\n                self.deferred.push(entry);\n                return None;\n            }\n        }")])
ben('memfs_readlink_match', [(MV, 's', "        if let Some(entry) = guard.get_entry(&path) {\n            if !entry.is_symlink() {\n                return Err(PathError::is_not_symlink(path).into());\n            }\n            Ok(entry.rel_buf())\n        } else {\n            Err(PathError::does_not_exist(path).into())\n        }",
                               "        let entry = match guard.get_entry(&path) {\n            Some(entry) => entry,\n            None => return Err(PathError::does_not_exist(path).into()),\n        };\n        if !entry.is_symlink() {\n            return Err(PathError::is_not_symlink(path).into());\n        }\n        Ok(entry.rel_buf())")])
ben('next_root_if_let', [(EN, 's', "            if result.is_some() {\n                return result;\n            }", "            if let Some(first) = result {\n                return Some(first);\n            }")])

ben('string_trim_suffix_delegates', [('src/core/string.rs', 's', "impl StringExt for String {", "impl StringExt for String {\n    // (trim_suffix below forwards to the str implementation)"),
                                      ('src/core/string.rs', 's', "    fn trim_suffix<T: Into<String>>(&self, suffix: T) -> String {\n        let target = suffix.into();\n        match self.ends_with(&target) {\n            true => self[..self.len() - target.len()].to_owned(),\n            _ => self.to_owned(),\n        }\n    }\n}\n\n/// Provides to_string",
                                       "    fn trim_suffix<T: Into<String>>(&self, suffix: T) -> String {\n        StringExt::trim_suffix(self.as_str(), suffix)\n    }\n}\n\n/// Provides to_string")])
ben('seek_match_to_if_let', [(MF, 's', "        match base.checked_add_signed(offset) {\n            Some(pos) => {\n                self.pos = pos;\n                Ok(self.pos)\n            },\n            None => Err(io::Error::new(\n                io::ErrorKind::InvalidInput,\n                \"invalid seek to a negative or overflowing position\",\n            )),\n        }",
                              "        if let Some(pos) = base.checked_add_signed(offset) {\n            self.pos = pos;\n            return Ok(pos);\n        }\n        Err(io::Error::new(io::ErrorKind::InvalidInput, \"invalid seek to a negative or overflowing position\"))")])
ben('path_name_let_binding', [(PA, 's', "    base(trim_ext(path)?)\n", "    let trimmed = trim_ext(path)?;\n    base(trimmed)\n")])

# ---- edits that touch operands / stores / struct literals of frozen functions without changing what flows where
ben('stdfs_chown_hoist_ids', [(SM, 's', "        for entry in Stdfs::entries(&opts.path)?.max_depth(max_depth).follow(opts.follow) {\n            let src = entry?;\n            let uid = opts.uid.map(nix::unistd::Uid::from_raw);\n            let gid = opts.gid.map(nix::unistd::Gid::from_raw);\n            nix::unistd::chown(src.path(), uid, gid)?;\n        }",
                               "        let uid = opts.uid.map(nix::unistd::Uid::from_raw);\n        let gid = opts.gid.map(nix::unistd::Gid::from_raw);\n        for entry in Stdfs::entries(&opts.path)?.max_depth(max_depth).follow(opts.follow) {\n            let src = entry?;\n            nix::unistd::chown(src.path(), uid, gid)?;\n        }")])
ben('memfs_set_cwd_let_and_return', [(MV, 's', "        guard.set_cwd(path.clone());\n        Ok(path)", "        let new_cwd = path.clone();\n        guard.set_cwd(new_cwd);\n        return Ok(path);")])
ben('stdfs_chown_b_local_opts', [(SM, 's', "        Ok(Chown {\n            opts: ChownOpts {\n                path: Stdfs::abs(path)?,\n                uid: None,\n                gid: None,\n                follow: false,\n                recursive: true,\n            },\n            exec: Box::new(Stdfs::_chown),\n        })",
                                  "        let path = Stdfs::abs(path)?;\n        let opts = ChownOpts { path, uid: None, gid: None, follow: false, recursive: true };\n        Ok(Chown { opts, exec: Box::new(Stdfs::_chown) })")])
ben('memfs_new_unused_helper', [(MV, 's', "    // Execute chmod with the given options\n    fn _chmod(&self, opts: ChmodOpts) -> RvResult<()> {",
                                 "    // Number of entries currently stored (diagnostics only)\n    #[allow(dead_code)]\n    fn _entry_count(&self) -> usize {\n        let guard = self.read_guard();\n        guard.entries_len()\n    }\n\n    // Execute chmod with the given options\n    fn _chmod(&self, opts: ChmodOpts) -> RvResult<()> {"),
                                (MV, 's', "    pub(crate) fn set_cwd(&mut self, path: PathBuf) {", "    #[allow(dead_code)]\n    pub(crate) fn entries_len(&self) -> usize {\n        match self {\n            MemfsGuard::Read(x) => x.entries.len(),\n            MemfsGuard::Write(x) => x.entries.len(),\n        }\n    }\n\n    pub(crate) fn set_cwd(&mut self, path: PathBuf) {")])


def main():
    if subprocess.check_output(['git', '-C', REPO, 'status', '--porcelain', '--', 'src'], text=True).strip():
        sys.exit('refusing: /repo/src has uncommitted changes')
    n = 0
    for name, edits in B:
        ok = True
        for (f, kind, old, new) in edits:
            p = os.path.join(REPO, f)
            s = open(p).read()
            if kind == 's':
                if s.count(old) < 1:
                    print('ANCHOR NOT FOUND: %s in %s' % (name, f))
                    ok = False
                    break
                s = s.replace(old, new, 1)
            else:
                # only touch the non-test part of the file
                cut = s.find('#[cfg(test)]')
                head, tail = (s, '') if cut < 0 else (s[:cut], s[cut:])
                head = re.sub(old, new, head)
                s = head + tail
            open(p, 'w').write(s)
        d = subprocess.check_output(['git', '-C', REPO, 'diff', '--', 'src'], text=True)
        subprocess.check_call(['git', '-C', REPO, 'checkout', '--', 'src'])
        if ok and d:
            open(os.path.join(OUT, name + '.patch'), 'w').write(d)
            n += 1
    print('wrote %d benign patches' % n)


if __name__ == '__main__':
    main()
