#!/usr/bin/env python3
"""Maintenance tool: generate behaviour-preserving refactorings under benign/ — every check must stay silent on them."""
import os, subprocess, sys, re
REPO = '/repo'
OUT = '/verif/benign'
B = []


def ben(name, edits):
    B.append((name, edits))


MV = 'src/sys/fs/memfs/vfs.rs'
SM = 'src/sys/fs/stdfs/mod.rs'
V = 'src/sys/fs/vfs.rs'
US = 'src/sys/user.rs'
PA = 'src/sys/fs/path.rs'
EN = 'src/sys/fs/entries.rs'
MF = 'src/sys/fs/memfs/file.rs'

ben('rename_locals_move_p', [(MV, 're', r'\bsrc_path\b', 'spath'), (MV, 're', r'\bdst_first\b', 'first_dst'), (MV, 're', r'\bdst_parent\b', 'parent_of_dst')])
ben('rename_private_abs_helper', [(MV, 're', r'\b_abs\b', '_resolve'), ('src/sys/fs/memfs/file.rs', 're', r'\b_abs\b', '_resolve')])
ben('vfs_arm_ref_reordered', [(V, 's', "    fn cwd(&self) -> RvResult<PathBuf> {\n        match self {\n            Vfs::Stdfs(x) => x.cwd(),\n            Vfs::Memfs(x) => x.cwd(),\n        }\n    }",
                        "    fn cwd(&self) -> RvResult<PathBuf> {\n        match *self {\n            Self::Memfs(ref fs) => VirtualFileSystem::cwd(fs),\n            Self::Stdfs(ref fs) => fs.cwd(),\n        }\n    }")])
ben('add_question_to_match', [(MV, 's', "        let dir = path.dir()?;\n        if let Some(entry) = guard.get_entry(&dir) {\n            if !entry.is_dir() {\n                return Err(PathError::is_not_dir(dir).into());",
                               "        let dir = match path.dir() {\n            Ok(d) => d,\n            Err(e) => return Err(e),\n        };\n        if let Some(entry) = guard.get_entry(&dir) {\n            if !entry.is_dir() {\n                return Err(PathError::is_not_dir(dir).into());")])
ben('set_cwd_narrow_guard', [(MV, 's', "    fn set_cwd<T: AsRef<Path>>(&self, path: T) -> RvResult<PathBuf> {\n        let mut guard = self.write_guard();\n        let path = self._abs(&guard, path)?;\n        if !guard.contains_entry(&path) {\n            return Err(PathError::does_not_exist(&path).into());\n        }\n        guard.set_cwd(path.clone());\n        Ok(path)\n    }",
                              "    fn set_cwd<T: AsRef<Path>>(&self, path: T) -> RvResult<PathBuf> {\n        let path = {\n            let mut guard = self.write_guard();\n            let path = self._abs(&guard, path)?;\n            if !guard.contains_entry(&path) {\n                return Err(PathError::does_not_exist(&path).into());\n            }\n            guard.set_cwd(path.clone());\n            path\n        };\n        Ok(path)\n    }")])
ben('mkdir_helper_extracted', [(MV, 's', "    fn mkdir_p<'a, T: AsRef<Path>>(&self, path: T) -> RvResult<PathBuf> {\n        let mut guard = self.write_guard();\n        let abs = self._abs(&guard, path)?;\n        self._mkdir_m(&mut guard, &abs, None)?;\n        Ok(abs)\n    }",
                                "    fn mkdir_p<'a, T: AsRef<Path>>(&self, path: T) -> RvResult<PathBuf> {\n        let mut guard = self.write_guard();\n        self._mkdir_locked(&mut guard, path, None)\n    }"),
                               (MV, 's', "    // Execute chmod with the given options\n    fn _chmod(&self, opts: ChmodOpts) -> RvResult<()> {",
                                "    // Shared body of mkdir_p / mkdir_m under an already held guard\n    fn _mkdir_locked<T: AsRef<Path>>(&self, guard: &mut MemfsGuard, path: T, mode: Option<u32>) -> RvResult<PathBuf> {\n        let abs = self._abs(guard, path)?;\n        self._mkdir_m(guard, &abs, mode)?;\n        Ok(abs)\n    }\n\n    // Execute chmod with the given options\n    fn _chmod(&self, opts: ChmodOpts) -> RvResult<()> {")])
ben('xdg_helper_refactor', [(US, 's', "pub fn cache_dir() -> RvResult<PathBuf> {\n    Ok(match env::var(\"XDG_CACHE_HOME\") {\n        Ok(x) => PathBuf::from(x),\n        Err(_) => home_dir()?.mash(\".cache\"),\n    })\n}",
                             "pub fn cache_dir() -> RvResult<PathBuf> {\n    let value = env::var(\"XDG_CACHE_HOME\");\n    Ok(match value {\n        Ok(x) => PathBuf::from(x),\n        Err(_) => {\n            let home = home_dir()?;\n            home.mash(\".cache\")\n        },\n    })\n}")])
ben('reorder_validations_remove', [(MV, 's', "    fn remove<T: AsRef<Path>>(&self, path: T) -> RvResult<()> {\n        let mut guard = self.write_guard();\n        let path = self._abs(&guard, path)?;\n",
                                    "    fn remove<T: AsRef<Path>>(&self, path: T) -> RvResult<()> {\n        let mut guard = self.write_guard();\n        let path = self._abs(&guard, path)?;\n        let dir = path.dir()?;\n"),
                                   (MV, 's', "        // Next remove the file from its parent\n        let dir = path.dir()?;\n        if let Some(entry) = guard.get_entry_mut(&dir) {\n            entry.remove(path.base()?)?;",
                                    "        // Next remove the file from its parent\n        if let Some(entry) = guard.get_entry_mut(&dir) {\n            entry.remove(path.base()?)?;")])
ben('read_rename_and_comment', [(MF, 's', "        let pos = cmp::min(self.pos, self.data.len() as u64) as usize;", "        // clamp the start offset to the data length\n        let start = cmp::min(self.pos, self.data.len() as u64) as usize;"),
                                (MF, 're', r'\[pos\.\.pos \+ len\]', '[start..start + len]')])
ben('entries_process_rename', [(EN, 're', r'\bdepth\b', 'level')])
ben('stdfs_is_dir_early_return', [(SM, 's', "    pub fn is_dir<T: AsRef<Path>>(path: T) -> bool {\n        match Stdfs::abs(path) {\n            Ok(abs) => match fs::symlink_metadata(abs) {\n                Ok(x) => !x.file_type().is_symlink() && x.is_dir(),\n                _ => false,\n            },\n            Err(_) => false,\n        }\n    }",
                                   "    pub fn is_dir<T: AsRef<Path>>(path: T) -> bool {\n        let abs = match Stdfs::abs(path) {\n            Ok(abs) => abs,\n            Err(_) => return false,\n        };\n        let meta = match fs::symlink_metadata(abs) {\n            Ok(x) => x,\n            _ => return false,\n        };\n        if meta.file_type().is_symlink() {\n            return false;\n        }\n        meta.is_dir()\n    }")])


def main():
    if subprocess.check_output(['git', '-C', REPO, 'status', '--porcelain', '--', 'src'], text=True).strip():
        sys.exit('refusing: /repo/src has uncommitted changes')
    n = 0
    for name, edits in B:
        ok = True
        for (f, kind, old, new) in edits:
            p = os.path.join(REPO, f)
            s = open(p).read()
            if kind == 's':
                if s.count(old) < 1:
                    print('ANCHOR NOT FOUND: %s in %s' % (name, f))
                    ok = False
                    break
                s = s.replace(old, new, 1)
            else:
                # only touch the non-test part of the file
                cut = s.find('#[cfg(test)]')
                head, tail = (s, '') if cut < 0 else (s[:cut], s[cut:])
                head = re.sub(old, new, head)
                s = head + tail
            open(p, 'w').write(s)
        d = subprocess.check_output(['git', '-C', REPO, 'diff', '--', 'src'], text=True)
        subprocess.check_call(['git', '-C', REPO, 'checkout', '--', 'src'])
        if ok and d:
            open(os.path.join(OUT, name + '.patch'), 'w').write(d)
            n += 1
    print('wrote %d benign patches' % n)


if __name__ == '__main__':
    main()
