//! Analysed, never executed: one probe function per assert_vfs_* macro (and for defer!), expanded against `&Vfs`,
//! so that the macro expansions become MIR the rule engine can inspect.
#![allow(unused)]
use rivia::prelude::*;

pub fn marker_a() {}
pub fn marker_b() {}

pub fn probe_defer() {
    defer!(marker_a());
    marker_b();
}

pub fn probe_defer_two() {
    defer!(marker_a());
    defer!(marker_b());
}

pub fn probe_exists(vfs: &Vfs, p: &Path) {
    assert_vfs_exists!(vfs, p);
}
pub fn probe_no_exists(vfs: &Vfs, p: &Path) {
    assert_vfs_no_exists!(vfs, p);
}
pub fn probe_is_dir(vfs: &Vfs, p: &Path) {
    assert_vfs_is_dir!(vfs, p);
}
pub fn probe_no_dir(vfs: &Vfs, p: &Path) {
    assert_vfs_no_dir!(vfs, p);
}
pub fn probe_is_file(vfs: &Vfs, p: &Path) {
    assert_vfs_is_file!(vfs, p);
}
pub fn probe_no_file(vfs: &Vfs, p: &Path) {
    assert_vfs_no_file!(vfs, p);
}
pub fn probe_is_symlink(vfs: &Vfs, p: &Path) {
    assert_vfs_is_symlink!(vfs, p);
}
pub fn probe_no_symlink(vfs: &Vfs, p: &Path) {
    assert_vfs_no_symlink!(vfs, p);
}
pub fn probe_read_all(vfs: &Vfs, p: &Path, data: &str) {
    assert_vfs_read_all!(vfs, p, data);
}
pub fn probe_readlink(vfs: &Vfs, p: &Path, target: &Path) {
    assert_vfs_readlink!(vfs, p, target);
}
pub fn probe_readlink_abs(vfs: &Vfs, p: &Path, target: &Path) {
    assert_vfs_readlink_abs!(vfs, p, target);
}
pub fn probe_mkdir_p(vfs: &Vfs, p: &Path) {
    assert_vfs_mkdir_p!(vfs, p);
}
pub fn probe_mkdir_m(vfs: &Vfs, p: &Path, mode: u32) {
    assert_vfs_mkdir_m!(vfs, p, mode);
}
pub fn probe_mkfile(vfs: &Vfs, p: &Path) {
    assert_vfs_mkfile!(vfs, p);
}
pub fn probe_write_all(vfs: &Vfs, p: &Path, data: &str) {
    assert_vfs_write_all!(vfs, p, data);
}
pub fn probe_copyfile(vfs: &Vfs, from: &Path, to: &Path) {
    assert_vfs_copyfile!(vfs, from, to);
}
pub fn probe_symlink(vfs: &Vfs, link: &Path, target: &Path) {
    assert_vfs_symlink!(vfs, link, target);
}
pub fn probe_remove(vfs: &Vfs, p: &Path) {
    assert_vfs_remove!(vfs, p);
}
pub fn probe_remove_all(vfs: &Vfs, p: &Path) {
    assert_vfs_remove_all!(vfs, p);
}
